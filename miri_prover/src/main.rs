//! C10 under Miri: anthem's real `Prover::prove_all` (thread pool + channel fan-in) with a mock
//! prover whose `prove` yields pseudo-randomly and returns a planned report. Miri checks data
//! races, deadlocks and leaks; the program checks that every problem yields exactly one report.
use anthem::verif::{Problem, Prover, Report, Status, StatusExtractionError, Success};
use std::fmt;
use std::sync::atomic::{AtomicUsize, Ordering};
use std::sync::Arc;

#[derive(Debug, Clone)]
struct MockReport {
    name: String,
    theorem: bool,
}
impl fmt::Display for MockReport {
    fn fmt(&self, f: &mut fmt::Formatter<'_>) -> fmt::Result {
        write!(f, "{}", self.name)
    }
}
impl Report for MockReport {
    fn status(&self) -> Result<Status, StatusExtractionError> {
        if self.theorem { Ok(Status::Success(Success::Theorem)) } else { Err(StatusExtractionError::Missing) }
    }
}

#[derive(Debug, Clone)]
struct Mock {
    instances: usize,
    alive: Arc<AtomicUsize>,
    max_alive: Arc<AtomicUsize>,
    calls: Arc<AtomicUsize>,
}
impl Prover for Mock {
    type Report = MockReport;
    type Error = String;
    fn instances(&self) -> usize {
        self.instances
    }
    fn cores(&self) -> usize {
        1
    }
    fn prove(&self, problem: Problem) -> Result<MockReport, String> {
        let now = self.alive.fetch_add(1, Ordering::SeqCst) + 1;
        self.max_alive.fetch_max(now, Ordering::SeqCst);
        self.calls.fetch_add(1, Ordering::SeqCst);
        // yield a data-dependent number of times so that completion orders vary with the seed
        let k = problem.name.len() % 3;
        for _ in 0..k {
            std::thread::yield_now();
        }
        self.alive.fetch_sub(1, Ordering::SeqCst);
        if problem.name.ends_with('3') { Err(format!("spawn failed for {}", problem.name)) } else { Ok(MockReport { theorem: !problem.name.ends_with('2'), name: problem.name }) }
    }
}

fn main() {
    for instances in [1usize, 3] {
        let n = 6;
        let problems: Vec<Problem> = (0..n).map(|i| Problem::with_name(format!("{}{}", "p".repeat(1 + i % 3), i))).collect();
        let mock = Mock { instances, alive: Arc::new(AtomicUsize::new(0)), max_alive: Arc::new(AtomicUsize::new(0)), calls: Arc::new(AtomicUsize::new(0)) };
        let mut seen: Vec<String> = Vec::new();
        let mut errors = 0;
        for r in mock.prove_all(problems) {
            match r {
                Ok(rep) => seen.push(rep.name),
                Err(_) => errors += 1,
            }
        }
        let order = seen.join(",");
        let mut sorted = seen.clone();
        sorted.sort();
        sorted.dedup();
        if seen.len() + errors != n || sorted.len() != seen.len() || mock.calls.load(Ordering::SeqCst) != n {
            println!("MIRI-VIOLATION reports={} errors={} calls={}", seen.len(), errors, mock.calls.load(Ordering::SeqCst));
            std::process::exit(1);
        }
        if mock.max_alive.load(Ordering::SeqCst) > instances {
            println!("MIRI-VIOLATION more provers alive ({}) than instances ({})", mock.max_alive.load(Ordering::SeqCst), instances);
            std::process::exit(1);
        }
        if instances > 1 {
            println!("MIRI-OK order={order}");
        }
    }
}
