//! The three simplification portfolios as named rewrite lists, and an instrumented runner that
//! drives the real `Apply::apply` / `apply_fixpoint` with a closure that folds the rewrites one at
//! a time (exactly what `compose` does) while recording which rewrite changed which node.
use anthem::convenience::apply::Apply;
use anthem::syntax_tree::fol::sigma_0::Formula;
use anthem::verif::{CLASSIC, HT, INTUITIONISTIC};

pub type Rewrite = fn(Formula) -> Formula;

const INT_NAMES: &[&str] = &[
    "evaluate_comparisons",
    "apply_negation_definition_inverse",
    "apply_reverse_implication_definition",
    "apply_equivalence_definition_inverse",
    "remove_identities",
    "remove_annihilations",
    "remove_idempotences",
    "remove_orphaned_variables",
    "remove_empty_quantifications",
    "join_nested_quantifiers",
];
const CLASSIC_NAMES: &[&str] = &[
    "remove_double_negation",
    "substitute_defined_variables",
    "restrict_quantifier_domain",
    "extend_quantifier_scope",
    "simplify_transitive_equality",
];

fn named(list: &'static [Rewrite], names: &[&str], prefix: &str) -> Vec<(String, Rewrite)> {
    list.iter()
        .enumerate()
        .map(|(i, f)| {
            let n = if list.len() == names.len() { names[i].to_string() } else { format!("{prefix}[{i}]") };
            (n, *f)
        })
        .collect()
}

#[derive(Clone, Copy, PartialEq, Eq, Debug)]
pub enum Portfolio {
    Intuitionistic,
    Ht,
    Classic,
}
pub const PORTFOLIOS: [Portfolio; 3] = [Portfolio::Intuitionistic, Portfolio::Ht, Portfolio::Classic];

impl Portfolio {
    pub fn cli_name(self) -> &'static str {
        match self {
            Portfolio::Intuitionistic => "intuitionistic",
            Portfolio::Ht => "ht",
            Portfolio::Classic => "classic",
        }
    }
    pub fn is_classical(self) -> bool {
        self == Portfolio::Classic
    }
    /// the rewrite list exactly as `anthem simplify --portfolio` concatenates it
    pub fn rewrites(self) -> Vec<(String, Rewrite)> {
        let mut v = named(INTUITIONISTIC, INT_NAMES, "intuitionistic");
        if self != Portfolio::Intuitionistic {
            v.extend(named(HT, &[], "ht"));
        }
        if self == Portfolio::Classic {
            v.extend(named(CLASSIC, CLASSIC_NAMES, "classic"));
        }
        v
    }
}

#[derive(Clone, Copy, PartialEq, Eq, Debug)]
pub enum Strategy {
    Shallow,
    Recursive,
    Fixpoint,
}
pub const STRATEGIES: [Strategy; 3] = [Strategy::Shallow, Strategy::Recursive, Strategy::Fixpoint];
impl Strategy {
    pub fn cli_name(self) -> &'static str {
        match self {
            Strategy::Shallow => "shallow",
            Strategy::Recursive => "recursive",
            Strategy::Fixpoint => "fixpoint",
        }
    }
}

#[derive(Clone, Debug)]
pub struct Step {
    pub rewrite: String,
    pub before: Formula,
    pub after: Formula,
}

pub struct Trace {
    pub steps: Vec<Step>,
    pub fired: Vec<(String, u64)>,
    pub invocations: u64,
}

pub struct StepLimit;

/// Runs strategy `s` of portfolio `p` on `f` through the real Apply implementation. The closure
/// handed to it panics (payload StepLimit) after `max_invocations` node visits, which the caller
/// observes as Err (bounded-progress verdict for C18). `keep_steps`: record at most that many
/// (rewrite, before, after) events.
pub fn run_strategy(p: Portfolio, s: Strategy, f: Formula, max_invocations: u64, keep_steps: usize) -> Result<(Formula, Trace), String> {
    let rewrites = p.rewrites();
    let mut steps: Vec<Step> = Vec::new();
    let mut fired: Vec<(String, u64)> = rewrites.iter().map(|(n, _)| (n.clone(), 0)).collect();
    let mut invocations = 0u64;
    let res = {
        let mut closure = |x: Formula| -> Formula {
            invocations += 1;
            if invocations > max_invocations {
                std::panic::panic_any("AVM_STEP_LIMIT".to_string());
            }
            let mut cur = x;
            for (i, (name, rw)) in rewrites.iter().enumerate() {
                let next = rw(cur.clone());
                if next != cur {
                    fired[i].1 += 1;
                    if steps.len() < keep_steps {
                        steps.push(Step { rewrite: name.clone(), before: cur.clone(), after: next.clone() });
                    }
                }
                cur = next;
            }
            cur
        };
        std::panic::catch_unwind(std::panic::AssertUnwindSafe(|| match s {
            Strategy::Shallow => closure(f),
            Strategy::Recursive => f.apply(&mut closure),
            Strategy::Fixpoint => f.apply_fixpoint(&mut closure),
        }))
    };
    match res {
        Ok(g) => Ok((g, Trace { steps, fired, invocations })),
        Err(e) => Err(e
            .downcast_ref::<String>()
            .cloned()
            .or_else(|| e.downcast_ref::<&str>().map(|s| s.to_string()))
            .unwrap_or_else(|| "panic".into())),
    }
}

pub fn node_count(f: &Formula) -> u64 {
    match f {
        Formula::AtomicFormula(_) => 1,
        Formula::UnaryFormula { formula, .. } => 1 + node_count(formula),
        Formula::BinaryFormula { lhs, rhs, .. } => 1 + node_count(lhs) + node_count(rhs),
        Formula::QuantifiedFormula { formula, .. } => 1 + node_count(formula),
    }
}
