//! Seeded generators of programs, formulas and interpretations (DESIGN.md 3.6). Programs and
//! formulas are generated as *text* in anthem's own input syntax and then parsed by anthem, so
//! that every case is printable and replayable as a string.
use crate::kit::ir::Sort;
use crate::kit::rng::Rng;
use crate::kit::value::{Ext, Interp, Value};
use std::collections::BTreeSet;

/// variable names that collide with the fresh names the translators choose
pub const ASP_VARS: &[&str] = &["X", "Y", "I", "J", "K", "Z", "Z1", "Z2", "V", "V1", "V2", "Q", "R", "N", "N0", "N1", "I1", "J1", "X1"];

#[derive(Clone, Debug)]
pub struct ProgOpts {
    pub preds: Vec<(String, usize)>,
    pub max_rules: usize,
    pub term_depth: u32,
    pub safe: bool,
    /// only + - * (and intervals where the regular fragment allows them)
    pub regular: bool,
    pub allow_choice: bool,
    pub allow_constraint: bool,
    pub symbols: Vec<String>,
    pub extreme_numerals: bool,
    pub max_body: usize,
}

impl Default for ProgOpts {
    fn default() -> Self {
        ProgOpts {
            preds: vec![("p".into(), 1), ("q".into(), 1), ("r".into(), 2), ("s".into(), 0)],
            max_rules: 3,
            term_depth: 2,
            safe: true,
            regular: false,
            allow_choice: true,
            allow_constraint: true,
            symbols: vec!["a".into(), "b".into()],
            extreme_numerals: false,
            max_body: 3,
        }
    }
}

pub fn gen_term(r: &mut Rng, o: &ProgOpts, vars: &[&str], depth: u32) -> String {
    if depth == 0 || r.below(3) == 0 {
        return match r.below(12) {
            0..=5 if !vars.is_empty() => vars[r.upto(vars.len())].to_string(),
            6..=8 | 0..=5 => {
                if o.extreme_numerals && r.chance(1, 12) {
                    ["9223372036854775807", "-9223372036854775807", "4611686018427387904", "1000000"][r.upto(4)].to_string()
                } else {
                    format!("{}", r.range(-3, 5))
                }
            }
            9 | 10 => o.symbols[r.upto(o.symbols.len())].clone(),
            _ => ["#inf", "#sup"][r.upto(2)].to_string(),
        };
    }
    let nops = if o.regular { 4 } else { 8 };
    if !o.regular && r.chance(1, 10) {
        // the same operand twice: two occurrences of a multi-valued term take their values
        // independently ((1..2)*(1..2) has the values 1, 2, 4)
        let t = if r.chance(2, 3) {
            format!("({})..({})", r.range(-1, 2), r.range(1, 3))
        } else {
            gen_term(r, o, vars, depth - 1)
        };
        let op = ["+", "-", "*", "/", "\\"][r.upto(5)];
        return format!("({t}){op}({t})");
    }
    match r.below(nops) {
        0 => format!("-({})", gen_term(r, o, vars, depth - 1)),
        1 => format!("({})+({})", gen_term(r, o, vars, depth - 1), gen_term(r, o, vars, depth - 1)),
        2 => format!("({})-({})", gen_term(r, o, vars, depth - 1), gen_term(r, o, vars, depth - 1)),
        3 => format!("({})*({})", gen_term(r, o, vars, depth - 1), gen_term(r, o, vars, depth - 1)),
        4 => format!("({})/({})", gen_term(r, o, vars, depth - 1), gen_term(r, o, vars, depth - 1)),
        5 => format!("({})\\({})", gen_term(r, o, vars, depth - 1), gen_term(r, o, vars, depth - 1)),
        6 => format!("({})..({})", gen_term(r, o, vars, depth - 1), gen_term(r, o, vars, depth - 1)),
        _ => format!("({})+({})", gen_term(r, o, vars, depth - 1), gen_term(r, o, vars, depth - 1)),
    }
}

pub fn gen_atom(r: &mut Rng, o: &ProgOpts, vars: &[&str], depth: u32) -> String {
    let (p, n) = o.preds[r.upto(o.preds.len())].clone();
    gen_atom_of(r, o, vars, depth, &p, n)
}

pub fn gen_atom_of(r: &mut Rng, o: &ProgOpts, vars: &[&str], depth: u32, p: &str, n: usize) -> String {
    if n == 0 {
        return p.to_string();
    }
    let args: Vec<String> = (0..n).map(|_| gen_term(r, o, vars, depth)).collect();
    format!("{}({})", p, args.join(","))
}

pub fn gen_rule(r: &mut Rng, o: &ProgOpts) -> String {
    let nv = r.upto(4);
    let mut vars: Vec<&str> = Vec::new();
    while vars.len() < nv {
        let v = ASP_VARS[r.upto(ASP_VARS.len())];
        if !vars.contains(&v) {
            vars.push(v);
        }
    }
    let mut body: Vec<String> = Vec::new();
    if o.safe {
        // binding elements: every variable is covered by a positive atom, an equality with an
        // interval/ground term, or a linear argument
        let with_arity: Vec<&(String, usize)> = o.preds.iter().filter(|(_, n)| *n > 0).collect();
        let mut i = 0;
        while i < vars.len() {
            match r.below(8) {
                0 => {
                    body.push(format!("{} = {}..{}", vars[i], r.range(-2, 1), r.range(0, 3)));
                    i += 1;
                }
                1 if !with_arity.is_empty() => {
                    let (p, n) = with_arity[r.upto(with_arity.len())];
                    let args: Vec<String> = (0..*n)
                        .map(|k| if k == 0 { format!("{}+{}", vars[i], r.range(-1, 2)) } else { format!("{}", r.range(0, 2)) })
                        .collect();
                    body.push(format!("{}({})", p, args.join(",")));
                    i += 1;
                }
                _ if !with_arity.is_empty() => {
                    let (p, n) = with_arity[r.upto(with_arity.len())];
                    let mut args = Vec::new();
                    for _ in 0..*n {
                        if i < vars.len() {
                            args.push(vars[i].to_string());
                            i += 1;
                        } else {
                            args.push(vars[r.upto(vars.len())].to_string());
                        }
                    }
                    body.push(format!("{}({})", p, args.join(",")));
                }
                _ => {
                    body.push(format!("{} = {}", vars[i], r.range(-1, 3)));
                    i += 1;
                }
            }
        }
    }
    let extra = r.upto(o.max_body + 1);
    for _ in 0..extra {
        if r.below(2) == 0 {
            let sign = ["", "", "not ", "not not "][r.upto(4)];
            body.push(format!("{}{}", sign, gen_atom(r, o, &vars, o.term_depth)));
        } else {
            let rel = ["=", "!=", "<", "<=", ">", ">="][r.upto(6)];
            body.push(format!("{} {} {}", gen_term(r, o, &vars, o.term_depth), rel, gen_term(r, o, &vars, o.term_depth)));
        }
    }
    r.shuffle(&mut body);
    let head = match r.below(6) {
        0 if o.allow_constraint => String::new(),
        1 | 2 if o.allow_choice => format!("{{{}}}", gen_atom(r, o, &vars, o.term_depth)),
        _ => gen_atom(r, o, &vars, o.term_depth),
    };
    if body.is_empty() {
        if head.is_empty() { ":- #inf = #inf.".to_string() } else { format!("{}.", head) }
    } else {
        format!("{} :- {}.", head, body.join(", "))
    }
}

pub fn gen_program(r: &mut Rng, o: &ProgOpts) -> String {
    let k = 1 + r.upto(o.max_rules);
    let rules: Vec<String> = (0..k).map(|_| gen_rule(r, o)).collect();
    rules.join("\n")
}

/// two or three ground rules of one predicate that close a cycle at the ground level only
/// (p(a) :- p(b). p(b) :- p(a).): a positive dependency of the predicate on itself although no
/// single rule relates an atom to itself
pub fn gen_ground_cycle(r: &mut Rng, o: &ProgOpts) -> String {
    let cands: Vec<&(String, usize)> = o.preds.iter().filter(|(_, n)| *n >= 1).collect();
    if cands.is_empty() {
        return String::new();
    }
    let (p, n) = cands[r.upto(cands.len())];
    let consts = ["a", "1", "2", "0"];
    let k = 2 + r.upto(2);
    let atom = |c: &str| -> String { format!("{p}({})", std::iter::once(c.to_string()).chain((1..*n).map(|_| "0".to_string())).collect::<Vec<_>>().join(",")) };
    let start = r.upto(consts.len());
    (0..k).map(|i| format!("{} :- {}.", atom(consts[(start + i) % consts.len()]), atom(consts[(start + (i + 1) % k) % consts.len()]))).collect::<Vec<_>>().join("\n")
}

// ------------------------------------------------------------------------------------------
// interpretations

pub fn tuples_over(pool: &[Value], n: usize) -> Vec<Vec<Value>> {
    let mut tuples: Vec<Vec<Value>> = vec![vec![]];
    for _ in 0..n {
        let mut next = Vec::new();
        for tp in &tuples {
            for v in pool {
                let mut x = tp.clone();
                x.push(v.clone());
                next.push(x);
            }
        }
        tuples = next;
    }
    tuples
}

/// random HT pair H subset-of T over `preds` with finite extents drawn from `pool`;
/// `cofinite_den` > 0: with probability 1/cofinite_den a predicate gets a co-finite extent
pub fn gen_ht(r: &mut Rng, preds: &[(String, usize)], pool: &[Value], cofinite_den: u64) -> (Interp, Interp) {
    let mut h = Interp::default();
    let mut t = Interp::default();
    for (p, n) in preds {
        // all tuples over the pool for small arities, a handful of random tuples for large ones
        let tuples = if *n <= 3 {
            tuples_over(pool, *n)
        } else {
            (0..6).map(|_| (0..*n).map(|_| pool[r.upto(pool.len())].clone()).collect::<Vec<Value>>()).collect()
        };
        let dens = match *n {
            0 => 2,
            1 => 3,
            2 => 8,
            3 => 30,
            _ => 2,
        };
        let cof = cofinite_den > 0 && r.below(cofinite_den) == 0;
        let mut te = Ext { exc: BTreeSet::new(), default: cof };
        let mut he = Ext { exc: BTreeSet::new(), default: cof && r.below(2) == 0 };
        for tp in tuples {
            if r.below(dens) == 0 {
                match (he.default, te.default) {
                    (false, false) => {
                        // tp in T, maybe in H
                        te.exc.insert(tp.clone());
                        if r.below(2) == 0 {
                            he.exc.insert(tp);
                        }
                    }
                    (false, true) => {
                        // T co-finite: tp is either missing from T (then also from H) or in H
                        if r.below(2) == 0 {
                            te.exc.insert(tp);
                        } else {
                            he.exc.insert(tp);
                        }
                    }
                    (true, true) => {
                        // both co-finite: tp missing from H, maybe also missing from T
                        he.exc.insert(tp.clone());
                        if r.below(2) == 0 {
                            te.exc.insert(tp);
                        }
                    }
                    (true, false) => unreachable!(),
                }
            }
        }
        t.preds.insert((p.clone(), *n), te);
        h.preds.insert((p.clone(), *n), he);
    }
    (h, t)
}

/// H and T chosen independently (so H is usually not a subset of T)
pub fn gen_pair_any(r: &mut Rng, preds: &[(String, usize)], pool: &[Value]) -> (Interp, Interp) {
    let (_, a) = gen_ht(r, preds, pool, 0);
    let (_, b) = gen_ht(r, preds, pool, 0);
    (a, b)
}

pub fn default_pool() -> Vec<Value> {
    vec![
        Value::Int(-2),
        Value::Int(-1),
        Value::Int(0),
        Value::Int(1),
        Value::Int(2),
        Value::Int(3),
        Value::Sym("a".into()),
        Value::Sym("b".into()),
        Value::Inf,
        Value::Sup,
    ]
}

pub fn small_pool() -> Vec<Value> {
    vec![Value::Int(0), Value::Int(1), Value::Int(2), Value::Sym("a".into())]
}

pub fn value_of_sort(r: &mut Rng, pool: &[Value], s: Sort) -> Value {
    let c: Vec<&Value> = pool
        .iter()
        .filter(|v| match s {
            Sort::G => true,
            Sort::I => matches!(v, Value::Int(_)),
            Sort::S => matches!(v, Value::Sym(_)),
        })
        .collect();
    if c.is_empty() {
        match s {
            Sort::I => Value::Int(0),
            Sort::S => Value::Sym("a".into()),
            Sort::G => Value::Inf,
        }
    } else {
        c[r.upto(c.len())].clone()
    }
}

// ------------------------------------------------------------------------------------------
// target-language formulas

/// (name, sort suffix)
pub const FOL_VARS: &[(&str, &str)] = &[
    ("X", ""),
    ("Y", ""),
    ("X", "$i"),
    ("Y", "$i"),
    ("Y1", "$i"),
    ("X1", ""),
    ("Y1", ""),
    ("X", "$s"),
    ("N", "$i"),
    ("Y2", "$i"),
    ("Z", "$s"),
];

#[derive(Clone, Debug)]
pub struct FolOpts {
    pub preds: Vec<(String, usize)>,
    pub depth: u32,
    /// function constants usable in terms: (name, sort)
    pub consts: Vec<(String, Sort)>,
    pub max_chain: usize,
    pub vars: Vec<(String, String)>,
}

impl Default for FolOpts {
    fn default() -> Self {
        FolOpts {
            preds: vec![("p".into(), 1), ("q".into(), 1), ("r".into(), 2), ("s".into(), 0)],
            depth: 3,
            consts: vec![],
            max_chain: 3,
            vars: FOL_VARS.iter().map(|(a, b)| (a.to_string(), b.to_string())).collect(),
        }
    }
}

pub fn gen_int_term(r: &mut Rng, o: &FolOpts, depth: u32) -> String {
    if depth == 0 || r.below(2) == 0 {
        let ivars: Vec<&(String, String)> = o.vars.iter().filter(|(_, s)| s == "$i").collect();
        let iconsts: Vec<&(String, Sort)> = o.consts.iter().filter(|(_, s)| *s == Sort::I).collect();
        return match r.below(6) {
            0..=2 if !ivars.is_empty() => {
                let (n, s) = ivars[r.upto(ivars.len())];
                format!("{n}{s}")
            }
            3 if !iconsts.is_empty() => format!("{}$i", iconsts[r.upto(iconsts.len())].0),
            _ => format!("{}", r.range(-2, 4)),
        };
    }
    match r.below(4) {
        0 => format!("-({})", gen_int_term(r, o, depth - 1)),
        k => format!("({}) {} ({})", gen_int_term(r, o, depth - 1), ["+", "-", "*"][(k - 1) as usize], gen_int_term(r, o, depth - 1)),
    }
}

pub fn gen_sym_term(r: &mut Rng, o: &FolOpts) -> String {
    let svars: Vec<&(String, String)> = o.vars.iter().filter(|(_, s)| s == "$s").collect();
    let sconsts: Vec<&(String, Sort)> = o.consts.iter().filter(|(_, s)| *s == Sort::S).collect();
    match r.below(4) {
        0 if !svars.is_empty() => {
            let (n, s) = svars[r.upto(svars.len())];
            format!("{n}{s}")
        }
        1 if !sconsts.is_empty() => format!("{}$s", sconsts[r.upto(sconsts.len())].0),
        2 => "b".into(),
        _ => "a".into(),
    }
}

pub fn gen_gterm(r: &mut Rng, o: &FolOpts) -> String {
    let gvars: Vec<&(String, String)> = o.vars.iter().filter(|(_, s)| s.is_empty()).collect();
    let gconsts: Vec<&(String, Sort)> = o.consts.iter().filter(|(_, s)| *s == Sort::G).collect();
    match r.below(10) {
        0..=2 if !gvars.is_empty() => gvars[r.upto(gvars.len())].0.clone(),
        3 if !gconsts.is_empty() => format!("{}$g", gconsts[r.upto(gconsts.len())].0),
        4 | 5 => gen_sym_term(r, o),
        6 => ["#inf", "#sup"][r.upto(2)].into(),
        _ => gen_int_term(r, o, 2),
    }
}

pub fn gen_atomic(r: &mut Rng, o: &FolOpts) -> String {
    match r.below(7) {
        0..=2 => {
            let (p, n) = &o.preds[r.upto(o.preds.len())];
            if *n == 0 {
                p.clone()
            } else {
                let args: Vec<String> = (0..*n).map(|_| gen_gterm(r, o)).collect();
                format!("{}({})", p, args.join(", "))
            }
        }
        3 => ["#true", "#false"][r.upto(2)].into(),
        _ => {
            let n = 1 + r.upto(o.max_chain);
            let mut s = gen_gterm(r, o);
            for _ in 0..n {
                s.push_str(&format!(" {} {}", ["=", "!=", "<", "<=", ">", ">="][r.upto(6)], gen_gterm(r, o)));
            }
            s
        }
    }
}

pub fn gen_formula(r: &mut Rng, o: &FolOpts, depth: u32) -> String {
    if depth == 0 || r.below(4) == 0 {
        return gen_atomic(r, o);
    }
    match r.below(10) {
        0 => format!("not ({})", gen_formula(r, o, depth - 1)),
        1 | 2 => format!("({}) and ({})", gen_formula(r, o, depth - 1), gen_formula(r, o, depth - 1)),
        3 => format!("({}) or ({})", gen_formula(r, o, depth - 1), gen_formula(r, o, depth - 1)),
        4 => format!("({}) -> ({})", gen_formula(r, o, depth - 1), gen_formula(r, o, depth - 1)),
        5 => format!("({}) <- ({})", gen_formula(r, o, depth - 1), gen_formula(r, o, depth - 1)),
        6 => format!("({}) <-> ({})", gen_formula(r, o, depth - 1), gen_formula(r, o, depth - 1)),
        _ => {
            let q = ["forall", "exists"][r.upto(2)];
            let n = 1 + r.upto(2);
            let vs: Vec<String> = (0..n)
                .map(|_| {
                    let (a, b) = &o.vars[r.upto(o.vars.len())];
                    format!("{a}{b}")
                })
                .collect();
            format!("{} {} ({})", q, vs.join(" "), gen_formula(r, o, depth - 1))
        }
    }
}

/// random assignment for every variable of `vars`
pub fn gen_assignment(r: &mut Rng, vars: &[(String, String)], pool: &[Value]) -> crate::kit::eval::Assign {
    let mut m = crate::kit::eval::Assign::new();
    for (n, s) in vars {
        let sort = match s.as_str() {
            "" => Sort::G,
            "$i" => Sort::I,
            _ => Sort::S,
        };
        m.insert((n.clone(), sort), value_of_sort(r, pool, sort));
    }
    m
}

pub fn show_assign(a: &crate::kit::eval::Assign) -> String {
    a.iter()
        .map(|((n, s), v)| format!("{}{}={}", n, match s { Sort::G => "", Sort::I => "$i", Sort::S => "$s" }, v.show()))
        .collect::<Vec<_>>()
        .join(" ")
}

// ------------------------------------------------------------------------------------------
// regular-biased rules (C08, C11): variables inside and outside arithmetic, intervals in heads
// and in `=` comparisons, symbols next to arithmetic, head variables named like fresh N<i>

fn gen_reg_term(r: &mut Rng, vars: &[&str], depth: u32) -> String {
    if depth == 0 || r.below(2) == 0 {
        return match r.below(10) {
            0..=5 if !vars.is_empty() => vars[r.upto(vars.len())].to_string(),
            6..=8 | 0..=5 => format!("{}", r.range(-2, 3)),
            _ => ["a", "#inf", "#sup", "b"][r.upto(4)].to_string(),
        };
    }
    match r.below(7) {
        0 => format!("-({})", gen_reg_term(r, vars, depth - 1)),
        k => {
            let op = ["+", "-", "*"][(k % 3) as usize];
            format!("({}){}({})", gen_reg_term(r, vars, depth - 1), op, gen_reg_term(r, vars, depth - 1))
        }
    }
}

pub fn gen_regular_rule(r: &mut Rng, preds: &[(String, usize)], safe_bias: u64) -> String {
    let names = ["X", "Y", "N0", "N1", "I", "N", "N2", "N10"];
    let nv = r.upto(4);
    let mut vars: Vec<&str> = Vec::new();
    while vars.len() < nv {
        let v = names[r.upto(names.len())];
        if !vars.contains(&v) {
            vars.push(v);
        }
    }
    let with_arity: Vec<&(String, usize)> = preds.iter().filter(|(_, n)| *n > 0).collect();
    let mut body: Vec<String> = Vec::new();
    for v in &vars {
        if r.below(safe_bias) != 0 && !with_arity.is_empty() {
            let (p, n) = with_arity[r.upto(with_arity.len())];
            let args: Vec<String> = (0..*n).map(|k| if k == 0 { v.to_string() } else { vars[r.upto(vars.len())].to_string() }).collect();
            body.push(format!("{}({})", p, args.join(",")));
        }
    }
    for _ in 0..r.below(3) {
        match r.below(4) {
            0 | 1 => {
                let sign = ["", "not ", "not not "][r.upto(3)];
                let (p, k) = &preds[r.upto(preds.len())];
                if *k == 0 {
                    body.push(format!("{sign}{p}"));
                } else {
                    let args: Vec<String> = (0..*k).map(|_| gen_reg_term(r, &vars, 2)).collect();
                    body.push(format!("{}{}({})", sign, p, args.join(",")));
                }
            }
            2 => {
                let rel = ["=", "!=", "<", "<=", ">", ">="][r.upto(6)];
                body.push(format!("{} {} {}", gen_reg_term(r, &vars, 2), rel, gen_reg_term(r, &vars, 2)));
            }
            _ => {
                let (l, m, h) = (gen_reg_term(r, &vars, 1), gen_reg_term(r, &vars, 1), gen_reg_term(r, &vars, 1));
                if r.below(4) == 0 {
                    body.push(format!("({})..({}) = {}", m, h, l));
                } else {
                    body.push(format!("{} = ({})..({})", l, m, h));
                }
            }
        }
    }
    let (hp, hn) = &preds[r.upto(preds.len())];
    let hargs: Vec<String> = (0..*hn)
        .map(|_| {
            if r.below(3) == 0 {
                format!("({})..({})", gen_reg_term(r, &vars, 1), gen_reg_term(r, &vars, 1))
            } else {
                gen_reg_term(r, &vars, 2)
            }
        })
        .collect();
    let hatom = if *hn == 0 { hp.clone() } else { format!("{}({})", hp, hargs.join(",")) };
    let head = match r.below(6) {
        0 => String::new(),
        1 | 2 => format!("{{{}}}", hatom),
        _ => hatom,
    };
    if body.is_empty() {
        if head.is_empty() { ":- 1 = 1.".into() } else { format!("{head}.") }
    } else {
        format!("{} :- {}.", head, body.join(", "))
    }
}
