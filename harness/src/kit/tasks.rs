//! Verification tasks: generators of (program|specification, program, user guide, proof outline)
//! texts, and builders that construct the very task structs `anthem verify` constructs (through
//! the `verif` feature re-exports) and call the real `Task::decompose`.
use crate::kit::rng::Rng;
use crate::run::guarded;
use anthem::syntax_tree::{asp::mini_gringo as asp, fol::sigma_0 as fol};
use anthem::verif::{AnnotatedFormula as ProblemFormula, Decomposition, ExternalEquivalenceTask, FormulaRepresentation, Problem, Role, StrongEquivalenceTask, Task};
use either::Either;

#[derive(Clone, Copy, Debug, PartialEq, Eq)]
pub struct Flags {
    pub sequential: bool,
    pub direction: Dir,
    pub simplify: bool,
    pub break_equivalences: bool,
}

#[derive(Clone, Copy, Debug, PartialEq, Eq)]
pub enum Dir {
    Universal,
    Forward,
    Backward,
}

impl Dir {
    pub fn fol(self) -> fol::Direction {
        match self {
            Dir::Universal => fol::Direction::Universal,
            Dir::Forward => fol::Direction::Forward,
            Dir::Backward => fol::Direction::Backward,
        }
    }
    pub fn cli(self) -> &'static str {
        match self {
            Dir::Universal => "universal",
            Dir::Forward => "forward",
            Dir::Backward => "backward",
        }
    }
}

impl Flags {
    pub fn all_for(direction: Dir) -> Vec<Flags> {
        let mut v = Vec::new();
        for sequential in [false, true] {
            for simplify in [false, true] {
                for break_equivalences in [false, true] {
                    v.push(Flags { sequential, direction, simplify, break_equivalences });
                }
            }
        }
        v
    }
    pub fn random(r: &mut Rng) -> Flags {
        Flags { sequential: r.chance(1, 2), direction: [Dir::Universal, Dir::Forward, Dir::Backward][r.upto(3)], simplify: r.chance(1, 2), break_equivalences: r.chance(1, 2) }
    }
    pub fn decomposition(&self) -> Decomposition {
        if self.sequential { Decomposition::Sequential } else { Decomposition::Independent }
    }
    pub fn cli_args(&self) -> Vec<String> {
        let mut v = vec!["--decomposition".to_string(), if self.sequential { "sequential" } else { "independent" }.to_string(), "--direction".to_string(), self.direction.cli().to_string()];
        if !self.simplify {
            v.push("--no-simplify".into());
        }
        if !self.break_equivalences {
            v.push("--no-eq-break".into());
        }
        v
    }
    pub fn tag(&self) -> String {
        format!("{}-{}-{}-{}", if self.sequential { "seq" } else { "ind" }, self.direction.cli(), if self.simplify { "simp" } else { "nosimp" }, if self.break_equivalences { "eqbreak" } else { "noeqbreak" })
    }
}

#[derive(Clone, Debug)]
pub struct ProblemData {
    pub name: String,
    /// (formula name, is conjecture, formula)
    pub formulas: Vec<(String, bool, fol::Formula)>,
    pub text: String,
    /// (symbolic constant of the input files, name it has in this problem): observed by handing
    /// anthem's own `Problem::rename_conflicting_symbols` a probe atom listing the constants
    /// next to the problem's formulas; no naming scheme is assumed
    pub symbol_map: Vec<(String, String)>,
}

/// Names the given symbolic constants of the input files carry inside problem `p`. The renaming
/// is a function of the constant and of the predicates of the problem only, so renaming a probe
/// atom `avm_probe(c1, ..., ck)` placed next to the problem's formulas shows it.
pub fn observed_symbol_map(p: &Problem, symbols: &[String]) -> Vec<(String, String)> {
    if symbols.is_empty() {
        return Vec::new();
    }
    let probe = fol::Formula::AtomicFormula(fol::AtomicFormula::Atom(fol::Atom {
        predicate_symbol: "avm_probe".into(),
        terms: symbols.iter().map(|c| fol::GeneralTerm::SymbolicTerm(fol::SymbolicTerm::Symbol(c.clone()))).collect(),
    }));
    let mut q = p.clone();
    q.formulas.push(ProblemFormula { name: "avm_probe".into(), role: Role::Axiom, formula: probe });
    let Ok(q) = guarded(move || q.rename_conflicting_symbols()) else { return Vec::new() };
    match q.formulas.last().map(|f| &f.formula) {
        Some(fol::Formula::AtomicFormula(fol::AtomicFormula::Atom(a))) if a.terms.len() == symbols.len() => symbols
            .iter()
            .zip(a.terms.iter())
            .filter_map(|(c, t)| match t {
                fol::GeneralTerm::SymbolicTerm(fol::SymbolicTerm::Symbol(n)) => Some((c.clone(), n.clone())),
                _ => None,
            })
            .collect(),
        _ => Vec::new(),
    }
}

fn rename_symbols(f: &fol::Formula, back: &std::collections::BTreeMap<String, String>) -> fol::Formula {
    fn st(t: &fol::SymbolicTerm, back: &std::collections::BTreeMap<String, String>) -> fol::SymbolicTerm {
        match t {
            fol::SymbolicTerm::Symbol(s) => fol::SymbolicTerm::Symbol(back.get(s).cloned().unwrap_or_else(|| s.clone())),
            x => x.clone(),
        }
    }
    fn gt(t: &fol::GeneralTerm, back: &std::collections::BTreeMap<String, String>) -> fol::GeneralTerm {
        match t {
            fol::GeneralTerm::SymbolicTerm(s) => fol::GeneralTerm::SymbolicTerm(st(s, back)),
            x => x.clone(),
        }
    }
    match f {
        fol::Formula::AtomicFormula(fol::AtomicFormula::Atom(a)) => {
            fol::Formula::AtomicFormula(fol::AtomicFormula::Atom(fol::Atom { predicate_symbol: a.predicate_symbol.clone(), terms: a.terms.iter().map(|t| gt(t, back)).collect() }))
        }
        fol::Formula::AtomicFormula(fol::AtomicFormula::Comparison(c)) => fol::Formula::AtomicFormula(fol::AtomicFormula::Comparison(fol::Comparison {
            term: gt(&c.term, back),
            guards: c.guards.iter().map(|g| fol::Guard { relation: g.relation, term: gt(&g.term, back) }).collect(),
        })),
        fol::Formula::AtomicFormula(a) => fol::Formula::AtomicFormula(a.clone()),
        fol::Formula::UnaryFormula { connective, formula } => fol::Formula::UnaryFormula { connective: connective.clone(), formula: Box::new(rename_symbols(formula, back)) },
        fol::Formula::BinaryFormula { connective, lhs, rhs } => fol::Formula::BinaryFormula { connective: connective.clone(), lhs: Box::new(rename_symbols(lhs, back)), rhs: Box::new(rename_symbols(rhs, back)) },
        fol::Formula::QuantifiedFormula { quantification, formula } => fol::Formula::QuantifiedFormula { quantification: quantification.clone(), formula: Box::new(rename_symbols(formula, back)) },
    }
}

/// The problems of a task as plain data. anthem renames symbolic constants once per direction,
/// on the problem that still holds all conjectures, and splits it afterwards: the probe therefore
/// sees the formulas of the whole family `<direction>[_problem]_<i>` (outline problems
/// `*_outline_<i>_<j>` are built and renamed one by one).
pub fn problem_data(problems: &[Problem], symbols: &[String]) -> Vec<ProblemData> {
    fn family(name: &str) -> String {
        if name.contains("_outline_") {
            return name.to_string();
        }
        match name.rfind('_') {
            Some(i) if !name[i + 1..].is_empty() && name[i + 1..].chars().all(|c| c.is_ascii_digit()) => name[..i].to_string(),
            _ => name.to_string(),
        }
    }
    let mut maps: std::collections::BTreeMap<String, Vec<(String, String)>> = std::collections::BTreeMap::new();
    if !symbols.is_empty() {
        for p in problems {
            let fam = family(&p.name);
            if maps.contains_key(&fam) {
                continue;
            }
            let mut all = p.clone();
            for q in problems {
                if q.name != p.name && family(&q.name) == fam {
                    all.formulas.extend(q.formulas.iter().cloned());
                }
            }
            maps.insert(fam, observed_symbol_map(&all, symbols));
        }
    }
    problems
        .iter()
        .map(|p| {
            let mut d = ProblemData::from(p);
            d.symbol_map = maps.get(&family(&p.name)).cloned().unwrap_or_default();
            d
        })
        .collect()
}

impl ProblemData {
    pub fn from(p: &Problem) -> ProblemData {
        ProblemData {
            name: p.name.clone(),
            formulas: p.formulas.iter().map(|f| (f.name.clone(), f.role == Role::Conjecture, f.formula.clone())).collect(),
            text: p.to_string(),
            symbol_map: Vec::new(),
        }
    }
    /// two different constants of the input files carry the same name in this problem
    pub fn identifies_symbols(&self) -> bool {
        let mut seen: std::collections::BTreeMap<&str, &str> = std::collections::BTreeMap::new();
        for (c, n) in &self.symbol_map {
            if let Some(prev) = seen.insert(n.as_str(), c.as_str()) {
                if prev != c.as_str() {
                    return true;
                }
            }
        }
        false
    }
    /// the problem with every symbolic constant under the name it has in the input files (the
    /// renaming is name mangling: a renamed constant is meant to denote the original one). Where
    /// two constants were given one name, the first of them is used.
    pub fn with_original_symbols(&self) -> ProblemData {
        let mut back: std::collections::BTreeMap<String, String> = std::collections::BTreeMap::new();
        for (c, n) in &self.symbol_map {
            if c != n {
                back.entry(n.clone()).or_insert_with(|| c.clone());
            }
        }
        // a constant that kept its name must keep denoting itself
        for (c, n) in &self.symbol_map {
            if c == n {
                back.remove(n);
            }
        }
        if back.is_empty() {
            return self.clone();
        }
        ProblemData { name: self.name.clone(), formulas: self.formulas.iter().map(|(n, c, f)| (n.clone(), *c, rename_symbols(f, &back))).collect(), text: self.text.clone(), symbol_map: self.symbol_map.clone() }
    }
    pub fn axioms(&self) -> impl Iterator<Item = &fol::Formula> {
        self.formulas.iter().filter(|f| !f.1).map(|f| &f.2)
    }
    pub fn conjectures(&self) -> impl Iterator<Item = &fol::Formula> {
        self.formulas.iter().filter(|f| f.1).map(|f| &f.2)
    }
    pub fn is_forward(&self) -> bool {
        self.name.starts_with("forward")
    }
}

#[derive(Debug)]
pub enum Built {
    Ok { problems: Vec<ProblemData>, warnings: Vec<String> },
    Refused(String),
    Panic(String),
}

pub fn build_strong(left: &asp::Program, right: &asp::Program, mu: bool, flags: Flags) -> Built {
    let task = StrongEquivalenceTask {
        left: left.clone(),
        right: right.clone(),
        decomposition: flags.decomposition(),
        direction: flags.direction.fol(),
        formula_representation: if mu { FormulaRepresentation::Mu } else { FormulaRepresentation::TauStar },
        simplify: flags.simplify,
        break_equivalences: flags.break_equivalences,
    };
    let mut symbols: Vec<String> = left.function_constants().into_iter().chain(right.function_constants()).collect();
    symbols.sort();
    symbols.dedup();
    match guarded(move || task.decompose()) {
        Ok(Ok(w)) => Built::Ok { problems: problem_data(&w.data, &symbols), warnings: w.warnings.iter().map(|x| format!("{x:?}")).collect() },
        Ok(Err(e)) => Built::Refused(format!("{e:?}")),
        Err(p) => Built::Panic(p),
    }
}

#[derive(Clone, Debug)]
pub struct ExtTexts {
    /// Left(program text) or Right(specification text)
    pub left: Either<String, String>,
    pub right: String,
    pub ug: String,
    pub po: String,
}

pub struct ExtParsed {
    pub left: Either<asp::Program, fol::Specification>,
    pub right: asp::Program,
    pub ug: fol::UserGuide,
    pub po: fol::Specification,
}

pub fn parse_ext(t: &ExtTexts) -> Result<ExtParsed, String> {
    let left = match &t.left {
        Either::Left(p) => Either::Left(p.parse::<asp::Program>().map_err(|e| format!("left program: {e}"))?),
        Either::Right(s) => Either::Right(s.parse::<fol::Specification>().map_err(|e| format!("specification: {e}"))?),
    };
    Ok(ExtParsed {
        left,
        right: t.right.parse::<asp::Program>().map_err(|e| format!("right program: {e}"))?,
        ug: t.ug.parse::<fol::UserGuide>().map_err(|e| format!("user guide: {e}"))?,
        po: t.po.parse::<fol::Specification>().map_err(|e| format!("proof outline: {e}"))?,
    })
}

pub fn build_external(p: &ExtParsed, bypass_tightness: bool, flags: Flags) -> Built {
    let task = ExternalEquivalenceTask {
        specification: p.left.clone(),
        program: p.right.clone(),
        user_guide: p.ug.clone(),
        proof_outline: p.po.clone(),
        decomposition: flags.decomposition(),
        direction: flags.direction.fol(),
        formula_representation: FormulaRepresentation::TauStar,
        bypass_tightness,
        simplify: flags.simplify,
        break_equivalences: flags.break_equivalences,
    };
    let mut symbols: Vec<String> = p.right.function_constants().into_iter().collect();
    match &p.left {
        Either::Left(l) => symbols.extend(l.function_constants()),
        Either::Right(s) => symbols.extend(s.formulas.iter().flat_map(|f| f.formula.symbols())),
    }
    symbols.extend(p.ug.formulas().iter().flat_map(|f| f.formula.symbols()));
    symbols.extend(p.po.formulas.iter().flat_map(|f| f.formula.symbols()));
    symbols.sort();
    symbols.dedup();
    // placeholders are function constants in the problems, not symbolic constants
    let placeholders: Vec<String> = p.ug.placeholders().into_iter().map(|c| c.name).collect();
    symbols.retain(|c| !placeholders.contains(c));
    match guarded(move || task.decompose()) {
        Ok(Ok(w)) => Built::Ok { problems: problem_data(&w.data, &symbols), warnings: w.warnings.iter().map(|x| x.to_string()).collect() },
        Ok(Err(e)) => Built::Refused(e.to_string()),
        Err(p) => Built::Panic(p),
    }
}

// ------------------------------------------------------------------------------------------
// generators

#[derive(Clone, Debug)]
pub struct Signature {
    pub inputs: Vec<(String, usize)>,
    pub outputs: Vec<(String, usize)>,
    /// (name, sort) with sort in {"integer", "general", "symbol"}
    pub placeholders: Vec<(String, String)>,
}

#[derive(Clone, Debug)]
pub struct ExtOpts {
    /// identifier pool with hostile shapes (leading underscores, _i/_g/_s suffixes, names of
    /// preamble symbols, symbols equal to predicate names, one name at two arities)
    pub hostile_identifiers: bool,
    /// identifiers with a leading underscore (known to be emitted unchanged into TPTP)
    pub underscore_identifiers: bool,
    /// one predicate name at two arities
    pub two_arities: bool,
    /// user identifiers equal to names the preamble declares (general, symbol, p__less__, ...)
    pub preamble_names: bool,
    pub with_spec: bool,
    pub with_outline: bool,
    pub max_privates: usize,
    /// upper bound on the number of output predicates (default 2)
    pub max_outputs: usize,
    /// the right program leaves out each output predicate with probability 1/2
    pub skip_many_outputs: bool,
    /// user-guide assumptions that write sorted function constants directly (n$g next to the
    /// placeholder n -> integer)
    pub sorted_constants: bool,
    /// private predicates named like the renamed copy of another one (aux, aux_p, aux_p_p)
    pub renamed_twins: bool,
    /// symbolic constants named like 0-ary predicates, and constants named like their renamed forms
    pub symbols_like_predicates: bool,
}

impl Default for ExtOpts {
    fn default() -> Self {
        ExtOpts { hostile_identifiers: false, underscore_identifiers: false, two_arities: false, preamble_names: false, with_spec: false, with_outline: false, max_privates: 2, max_outputs: 2, skip_many_outputs: false, sorted_constants: false, renamed_twins: false, symbols_like_predicates: false }
    }
}

pub fn gen_signature(r: &mut Rng, o: &ExtOpts) -> Signature {
    let mut in_pool: Vec<(&str, usize)> = if o.hostile_identifiers {
        vec![("in", 1), ("e", 2), ("in_i", 1), ("p__less__x", 2), ("n", 1), ("hq", 1), ("flag", 0), ("n_i", 0), ("c_g", 0)]
    } else {
        vec![("in", 1), ("e", 2), ("d", 1), ("flag", 0)]
    };
    let mut out_pool: Vec<(&str, usize)> = if o.hostile_identifiers {
        vec![("out", 1), ("o2", 2), ("res", 0), ("x__s", 1), ("tq", 1), ("a", 0)]
    } else {
        vec![("out", 1), ("o2", 2), ("res", 0), ("w", 1)]
    };
    if o.underscore_identifiers {
        in_pool.push(("_in", 1));
        out_pool.push(("_o", 1));
    }
    if o.two_arities {
        out_pool.push(("out", 2));
        in_pool.push(("in", 2));
    }
    let mut inputs: Vec<(String, usize)> = Vec::new();
    for _ in 0..r.upto(3) {
        let (n, a) = in_pool[r.upto(in_pool.len())];
        if !inputs.iter().any(|(x, y)| x == n && *y == a) {
            inputs.push((n.to_string(), a));
        }
    }
    let mut outputs: Vec<(String, usize)> = Vec::new();
    if o.max_outputs > 2 {
        out_pool.extend([("oa", 1), ("ob", 1), ("oc", 0), ("od", 2)]);
    }
    for _ in 0..(1 + r.upto(o.max_outputs.max(1))) {
        let (n, a) = out_pool[r.upto(out_pool.len())];
        if !outputs.iter().any(|(x, y)| x == n && *y == a) && !inputs.iter().any(|(x, y)| x == n && *y == a) {
            outputs.push((n.to_string(), a));
        }
    }
    if o.symbols_like_predicates {
        // make sure there is a 0-ary predicate for the symbolic constants to clash with
        if !outputs.iter().any(|(x, _)| x == "res") && !inputs.iter().any(|(x, _)| x == "res") {
            outputs.push(("res".to_string(), 0));
        }
        if !inputs.iter().any(|(x, _)| x == "in") {
            inputs.push(("in".to_string(), 1));
        }
    }
    let ph_pool: Vec<(&str, &str)> = if o.hostile_identifiers && o.underscore_identifiers {
        vec![("n", "integer"), ("c", "general"), ("k", "integer"), ("n_i", "integer"), ("_m", "integer"), ("sy", "symbol")]
    } else if o.hostile_identifiers {
        vec![("n", "integer"), ("c", "general"), ("k", "integer"), ("n_i", "integer"), ("sy", "symbol")]
    } else {
        vec![("n", "integer"), ("c", "general"), ("k", "integer"), ("sy", "symbol")]
    };
    let mut placeholders: Vec<(String, String)> = Vec::new();
    for _ in 0..r.upto(3) {
        let (n, s) = ph_pool[r.upto(ph_pool.len())];
        if !placeholders.iter().any(|(x, _)| x == n) {
            placeholders.push((n.to_string(), s.to_string()));
        }
    }
    Signature { inputs, outputs, placeholders }
}

fn atom_text(p: &str, args: &[String]) -> String {
    if args.is_empty() { p.to_string() } else { format!("{}({})", p, args.join(",")) }
}

fn small_term(r: &mut Rng, vars: &[&str], sig: &Signature, symbols: &[&str]) -> String {
    match r.below(10) {
        0..=4 if !vars.is_empty() => vars[r.upto(vars.len())].to_string(),
        5 if !vars.is_empty() => format!("{}+{}", vars[r.upto(vars.len())], r.range(1, 2)),
        6 if !sig.placeholders.is_empty() => sig.placeholders[r.upto(sig.placeholders.len())].0.clone(),
        7 if !symbols.is_empty() => symbols[r.upto(symbols.len())].to_string(),
        _ => format!("{}", r.range(0, 3)),
    }
}

/// One program over the signature: stratified (inputs < privates in order < outputs in order for
/// positive dependencies), safe, no choice rule with a private head.
pub fn gen_side_program(r: &mut Rng, sig: &Signature, privates: &[(String, usize)], symbols: &[&str], skip_output: Option<usize>) -> String {
    let mut rules: Vec<String> = Vec::new();
    let mut lower: Vec<(String, usize)> = sig.inputs.clone();
    let mut defined: Vec<((String, usize), bool)> = Vec::new();
    for p in privates {
        defined.push((p.clone(), true));
    }
    for (i, p) in sig.outputs.iter().enumerate() {
        if Some(i) == skip_output {
            continue;
        }
        defined.push((p.clone(), false));
    }
    for ((name, arity), is_private) in &defined {
        let n_rules = 1 + r.upto(2);
        for _ in 0..n_rules {
            let all_vars = ["X", "Y", "Z"];
            let nv = (*arity).min(2).max(if lower.iter().any(|(_, a)| *a > 0) { 1 } else { 0 });
            let vars: Vec<&str> = all_vars[..nv].to_vec();
            let mut body: Vec<String> = Vec::new();
            // binders
            let binders: Vec<&(String, usize)> = lower.iter().filter(|(_, a)| *a > 0).collect();
            let mut bound: Vec<&str> = Vec::new();
            for v in &vars {
                if bound.contains(v) {
                    continue;
                }
                if !binders.is_empty() && r.chance(4, 5) {
                    let (bp, ba) = binders[r.upto(binders.len())];
                    let mut args = Vec::new();
                    for k in 0..*ba {
                        if k == 0 {
                            args.push(v.to_string());
                        } else {
                            let w = vars[r.upto(vars.len())];
                            args.push(w.to_string());
                            if !bound.contains(&w) {
                                bound.push(w);
                            }
                        }
                    }
                    bound.push(v);
                    body.push(atom_text(bp, &args));
                } else {
                    let hi = if !sig.placeholders.is_empty() && sig.placeholders[0].1 == "integer" && r.chance(1, 2) { sig.placeholders[0].0.clone() } else { format!("{}", r.range(1, 3)) };
                    body.push(format!("{} = {}..{}", v, r.range(0, 1), hi));
                    bound.push(v);
                }
            }
            // extra literals
            for _ in 0..r.upto(3) {
                match r.below(4) {
                    0 if !lower.is_empty() => {
                        let (bp, ba) = &lower[r.upto(lower.len())];
                        let args: Vec<String> = (0..*ba).map(|_| small_term(r, &vars, sig, symbols)).collect();
                        let sign = ["", "not ", "not not "][r.upto(3)];
                        body.push(format!("{}{}", sign, atom_text(bp, &args)));
                    }
                    1 if !is_private && sig.outputs.len() > 1 => {
                        // negative dependency on another output (keeps the program tight)
                        let (bp, ba) = &sig.outputs[r.upto(sig.outputs.len())];
                        if bp != name || *ba != *arity {
                            let args: Vec<String> = (0..*ba).map(|_| small_term(r, &vars, sig, symbols)).collect();
                            body.push(format!("not {}", atom_text(bp, &args)));
                        }
                    }
                    _ => {
                        let rel = ["=", "!=", "<", "<=", ">", ">="][r.upto(6)];
                        body.push(format!("{} {} {}", small_term(r, &vars, sig, symbols), rel, small_term(r, &vars, sig, symbols)));
                    }
                }
            }
            let hargs: Vec<String> = (0..*arity)
                .map(|k| if k < vars.len() && r.chance(3, 4) { vars[k].to_string() } else { small_term(r, &vars, sig, symbols) })
                .collect();
            let hatom = atom_text(name, &hargs);
            let head = if !is_private && r.chance(1, 5) { format!("{{{hatom}}}") } else { hatom };
            if body.is_empty() {
                rules.push(format!("{head}."));
            } else {
                rules.push(format!("{} :- {}.", head, body.join(", ")));
            }
        }
        lower.push((name.clone(), *arity));
    }
    // constraints
    for _ in 0..r.upto(2) {
        let cands: Vec<&(String, usize)> = lower.iter().collect();
        if cands.is_empty() {
            break;
        }
        let (bp, ba) = cands[r.upto(cands.len())];
        let vars = ["X", "Y"];
        let args: Vec<String> = (0..*ba).map(|k| vars[k.min(1)].to_string()).collect();
        let mut body = vec![atom_text(bp, &args)];
        if *ba > 0 && r.chance(2, 3) {
            body.push(format!("X {} {}", ["<", ">", "=", "!="][r.upto(4)], small_term(r, &[], sig, symbols)));
        }
        rules.push(format!(":- {}.", body.join(", ")));
    }
    // a constraint whose body is a single comparison on an integer placeholder (true exactly at
    // or beyond a value the sampled placeholder values reach)
    if let Some((n, _)) = sig.placeholders.iter().find(|(_, s)| s == "integer") {
        if r.chance(1, 6) {
            rules.push(format!(":- {n} {} {}.", [">=", "<=", ">", "<", "!=", "="][r.upto(6)], r.range(0, 2)));
        }
    }
    if rules.is_empty() {
        rules.push(":- 1 = 2.".into());
    }
    rules.join("\n")
}

/// textual mutation of a program: usually meaning-changing (drop/alter a literal, numeral, relation)
pub fn mutate_program(r: &mut Rng, text: &str) -> String {
    let mut rules: Vec<String> = text.lines().map(|s| s.to_string()).collect();
    if rules.is_empty() {
        return text.to_string();
    }
    let k = r.upto(rules.len());
    let rule = rules[k].clone();
    let mutated = match r.below(7) {
        0 => {
            rules.remove(k);
            if rules.is_empty() {
                rules.push(":- 1 = 2.".into());
            }
            return rules.join("\n");
        }
        1 => rule.replacen(" < ", " <= ", 1).replacen(" > ", " >= ", 1),
        2 => rule.replacen("not not ", "", 1),
        3 => rule.replacen("not ", "", 1),
        4 => {
            // drop the last body literal
            match rule.rfind(", ") {
                Some(i) => format!("{}.", &rule[..i]),
                None => rule.clone(),
            }
        }
        5 => rule.replacen("1", "2", 1),
        _ => rule.replacen("+1", "+2", 1).replacen("X", "Y", 1),
    };
    if mutated.parse::<asp::Program>().is_ok() {
        rules[k] = mutated;
    }
    rules.join("\n")
}

/// meaning-preserving rewrite: reorder body literals, rename variables consistently
pub fn rewrite_program(r: &mut Rng, text: &str) -> String {
    let mut out = Vec::new();
    for line in text.lines() {
        let mut l = line.to_string();
        if r.chance(1, 2) {
            // consistent renaming X -> A, Y -> B
            l = l.replace('X', "A").replace('Y', "B");
        }
        if let Some(i) = l.find(" :- ") {
            let head = l[..i].to_string();
            let body = l[i + 4..l.len() - 1].to_string();
            let mut lits: Vec<&str> = body.split(", ").collect();
            if r.chance(1, 2) {
                lits.reverse();
            }
            l = format!("{} :- {}.", head, lits.join(", "));
        }
        out.push(l);
    }
    if r.chance(1, 2) {
        out.reverse();
    }
    out.join("\n")
}

pub fn gen_user_guide(r: &mut Rng, sig: &Signature, with_assumptions: bool) -> String {
    let mut lines: Vec<String> = Vec::new();
    for (n, s) in &sig.placeholders {
        lines.push(format!("input: {n} -> {s}."));
    }
    for (p, a) in &sig.inputs {
        lines.push(format!("input: {p}/{a}."));
    }
    for (p, a) in &sig.outputs {
        lines.push(format!("output: {p}/{a}."));
    }
    if with_assumptions {
        for _ in 0..r.upto(3) {
            match r.below(4) {
                3 => {
                    // a quantifier directly over a comparison chain
                    match sig.placeholders.iter().find(|(_, s)| s == "integer") {
                        Some((n, _)) if r.chance(1, 2) => lines.push(format!("assumption: exists N$i ({} <= N$i <= {n}).", r.range(-1, 1))),
                        _ => lines.push(format!("assumption: exists N$i ({} <= N$i < {}).", r.range(-1, 1), r.range(2, 4))),
                    }
                }
                0 if sig.placeholders.iter().any(|(_, s)| s == "integer") => {
                    let (n, _) = sig.placeholders.iter().find(|(_, s)| s == "integer").unwrap();
                    if r.chance(1, 3) {
                        // the placeholder below a unary minus only
                        lines.push(format!("assumption: -{}$i {} {}.", n, ["<", "<=", "!="][r.upto(3)], r.range(0, 2)));
                    } else {
                        lines.push(format!("assumption: {} {} {}.", n, [">", ">=", "!="][r.upto(3)], r.range(0, 2)));
                    }
                }
                1 if sig.inputs.iter().any(|(_, a)| *a == 1) => {
                    let (p, _) = sig.inputs.iter().find(|(_, a)| *a == 1).unwrap();
                    lines.push(format!("assumption: forall X ({p}(X) -> exists N$i (X = N$i and N$i {} {})).", [">=", "<", "!="][r.upto(3)], r.range(0, 3)));
                }
                _ if !sig.inputs.is_empty() => {
                    let (p, a) = &sig.inputs[r.upto(sig.inputs.len())];
                    let vars: Vec<String> = (0..*a).map(|i| format!("X{i}")).collect();
                    if *a == 0 {
                        lines.push(format!("assumption: {p} or not {p}."));
                    } else {
                        lines.push(format!("assumption: forall {} ({}({}) -> {} != a).", vars.join(" "), p, vars.join(","), vars[0]));
                    }
                }
                _ => {}
            }
        }
    }
    r.shuffle(&mut lines);
    lines.join("\n")
}

pub fn gen_external(r: &mut Rng, o: &ExtOpts) -> (ExtTexts, Signature) {
    let sig = gen_signature(r, o);
    let mut priv_pool: Vec<(&str, usize)> = if o.hostile_identifiers {
        vec![("aux", 1), ("aux_p", 1), ("hp", 1), ("t_s", 0)]
    } else {
        vec![("aux", 1), ("tmp", 1), ("mid", 2), ("on", 0)]
    };
    if o.underscore_identifiers {
        priv_pool.push(("_t", 1));
    }
    if o.renamed_twins {
        priv_pool = vec![("aux", 1), ("aux_p", 1), ("aux_p_p", 1), ("on", 0), ("on_p", 0)];
    }
    if o.two_arities {
        priv_pool.push(("aux", 2));
    }
    let pick_privs = |r: &mut Rng| -> Vec<(String, usize)> {
        let mut v: Vec<(String, usize)> = Vec::new();
        for _ in 0..r.upto(o.max_privates + 1) {
            let (n, a) = priv_pool[r.upto(priv_pool.len())];
            let clash = sig.inputs.iter().chain(sig.outputs.iter()).any(|(x, y)| x == n && *y == a);
            if !clash && !v.iter().any(|(x, y)| x == n && *y == a) {
                v.push((n.to_string(), a));
            }
        }
        v
    };
    let mut symbols: Vec<&str> = if o.hostile_identifiers { vec!["a", "b", "res", "flag", "n_g", "out", "res0", "aB", "aa", "a_b", "aZ", "a0"] } else { vec!["a", "b"] };
    if o.underscore_identifiers {
        symbols.push("_c");
    }
    if o.preamble_names {
        symbols.extend(["general", "symbol", "c__infimum__"]);
    }
    if o.symbols_like_predicates {
        symbols = vec!["res", "res__s", "a", "res", "res__s", "res__s__s"];
    }
    let lp = pick_privs(r);
    let rp = if r.chance(1, 2) { lp.clone() } else { pick_privs(r) };
    let skip_left = if sig.outputs.len() > 1 && r.chance(1, 8) { Some(r.upto(sig.outputs.len())) } else { None };
    let left_prog = gen_side_program(r, &sig, &lp, &symbols, skip_left);
    let right = match r.below(5) {
        0 | 1 => rewrite_program(r, &left_prog),
        2 | 3 => {
            let m = mutate_program(r, &left_prog);
            if r.chance(1, 2) { rewrite_program(r, &m) } else { m }
        }
        _ => {
            let skip_right = if sig.outputs.len() > 1 && r.chance(1, 6) { Some(r.upto(sig.outputs.len())) } else { None };
            gen_side_program(r, &sig, &rp, &symbols, skip_right)
        }
    };
    // a rule written twice (meaning preserving; exercises duplicate formulas in the problems)
    let (left_prog, right) = {
        let dup = |r: &mut Rng, text: &str| -> String {
            let lines: Vec<&str> = text.lines().collect();
            if lines.is_empty() {
                return text.to_string();
            }
            let k = r.upto(lines.len());
            let mut v: Vec<String> = lines.iter().map(|s| s.to_string()).collect();
            let at = r.upto(v.len() + 1);
            v.insert(at, lines[k].to_string());
            v.join("\n")
        };
        let l = if r.chance(1, 10) { dup(r, &left_prog) } else { left_prog };
        let rr = if r.chance(1, 6) { dup(r, &right) } else { right };
        (l, rr)
    };
    let right = if o.skip_many_outputs {
        // a right program over a random subset of the output predicates
        let mut sub = sig.clone();
        sub.outputs.retain(|_| r.chance(1, 2));
        gen_side_program(r, &sub, &rp, &symbols, None)
    } else {
        right
    };
    let with_assumptions = r.chance(1, 2);
    let mut ug = gen_user_guide(r, &sig, with_assumptions);
    if o.sorted_constants {
        let name = if !sig.placeholders.is_empty() && r.chance(2, 3) { sig.placeholders[r.upto(sig.placeholders.len())].0.clone() } else { "fc".to_string() };
        let s1 = ["$i", "$g", "$s"][r.upto(3)];
        let s2 = ["$i", "$g", "$s"][r.upto(3)];
        if let Some((p, _)) = sig.inputs.iter().find(|(_, a)| *a == 1) {
            ug.push_str(&format!("\nassumption: forall X ({p}(X) -> X != {name}{s1} or X = {name}{s2})."));
        } else {
            ug.push_str(&format!("\nassumption: {name}{s1} = {name}{s1} and {name}{s2} = {name}{s2}."));
        }
    }
    let po = String::new();
    (ExtTexts { left: Either::Left(left_prog), right, ug, po }, sig)
}

/// strong equivalence pairs: a program and a rewrite / mutant of it
#[derive(Clone, Copy, Debug, Default)]
pub struct StrongOpts {
    pub hostile_names: bool,
    pub hostile_symbols: bool,
    pub two_arities: bool,
    pub underscore_identifiers: bool,
    pub preamble_names: bool,
}

pub fn gen_strong(r: &mut Rng, hostile_names: bool) -> (String, String) {
    gen_strong_with(r, StrongOpts { hostile_names, ..Default::default() })
}

pub fn gen_strong_with(r: &mut Rng, so: StrongOpts) -> (String, String) {
    use crate::kit::generate::{ProgOpts, gen_program};
    let mut o = ProgOpts::default();
    o.safe = r.chance(3, 4);
    o.max_rules = 3;
    o.term_depth = if r.chance(1, 3) { 2 } else { 1 };
    o.max_body = 2;
    if so.hostile_names {
        o.preds = vec![("p".into(), 1), ("hp".into(), 1), ("tp".into(), 1), ("t".into(), 0), ("h".into(), 2)];
        if so.hostile_symbols && r.chance(1, 3) {
            // a predicate named like a renamed symbolic constant (p__s: its h-copy is hp__s,
            // the name the constant hp gets)
            o.preds.push(("p__s".into(), 1));
        }
    } else if r.chance(1, 3) {
        o.preds = vec![("p".into(), 1), ("q".into(), 1), ("s".into(), 0)];
    }
    if so.two_arities {
        o.preds.push(("p".into(), 2));
        o.preds.push(("q".into(), 3));
    }
    if so.underscore_identifiers {
        o.preds.push(("_u".into(), 1));
        o.symbols.push("_c".into());
    }
    if so.hostile_symbols {
        o.symbols = vec!["a".into(), "p".into(), "t".into(), "s".into(), "hp".into(), "s0".into(), "x__s".into(), "p_i".into(), "aB".into(), "aa".into(), "a_b".into(), "aZ".into(), "a0".into(), "maxValue".into(), "max_value".into(), "hp__s".into(), "t__s".into()];
    }
    if so.preamble_names {
        o.symbols.extend(["general".to_string(), "symbol".to_string(), "f__integer__".to_string()]);
        o.preds.push(("p__less__".into(), 2));
    }
    let mut left = gen_program(r, &o);
    if r.chance(1, 8) {
        // a rule whose body is the negation (or double negation) of its head
        let (p, n) = o.preds[r.upto(o.preds.len())].clone();
        let atom = if n == 0 { p.clone() } else { format!("{p}({})", vec!["X"; n].join(",")) };
        let guard = if n == 0 { String::new() } else { format!(", {} = 1..2", "X") };
        left.push_str(&format!("\n{atom} :- {} {atom}{}.", ["not", "not not"][r.upto(2)], if r.chance(1, 2) { guard } else { String::new() }));
    }
    if r.chance(1, 8) {
        // a constraint whose whole body is one (singly or doubly) negated literal
        let (p, n) = o.preds[r.upto(o.preds.len())].clone();
        let atom = if n == 0 { p.clone() } else { format!("{p}({})", vec!["X"; n].join(",")) };
        left.push_str(&format!("\n:- {} {atom}.", ["not", "not not", "not"][r.upto(3)]));
    }
    let right = match r.below(4) {
        0 => rewrite_program(r, &left),
        1 | 2 => mutate_program(r, &left),
        _ => gen_program(r, &o),
    };
    if r.chance(1, 6) {
        // one side repeats a rule, the other has an additional rule instead (same number of rules)
        let lines: Vec<&str> = left.lines().collect();
        let k = r.upto(lines.len());
        let dup = format!("{left}\n{}", lines[k]);
        let extra = format!("{left}\n{}", crate::kit::generate::gen_rule(r, &o));
        return if r.chance(1, 2) { (dup, extra) } else { (extra, dup) };
    }
    (left, right)
}
