pub mod aspref;
pub mod eval;
pub mod generate;
pub mod ir;
pub mod json;
pub mod rng;
pub mod value;
