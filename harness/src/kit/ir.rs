use crate::kit::value::Value;
use anthem::syntax_tree::fol::sigma_0 as fol;

pub type Vid = usize;

#[derive(Clone, Copy, PartialEq, Eq, Debug, Hash, PartialOrd, Ord)]
pub enum Sort {
    G,
    I,
    S,
}

#[derive(Clone, Copy, PartialEq, Eq, Debug)]
pub enum Op {
    Add,
    Sub,
    Mul,
}

#[derive(Clone, Debug, PartialEq)]
pub enum Term {
    Var(Vid),
    Val(Value),
    Const(String, Sort),
    Neg(Box<Term>),
    Bin(Op, Box<Term>, Box<Term>),
}

#[derive(Clone, Copy, PartialEq, Eq, Debug)]
pub enum Rel {
    Eq,
    Ne,
    Lt,
    Le,
    Gt,
    Ge,
}
impl Rel {
    pub fn neg(self) -> Rel {
        match self {
            Rel::Eq => Rel::Ne,
            Rel::Ne => Rel::Eq,
            Rel::Lt => Rel::Ge,
            Rel::Le => Rel::Gt,
            Rel::Gt => Rel::Le,
            Rel::Ge => Rel::Lt,
        }
    }
    pub fn holds(self, a: &Value, b: &Value) -> bool {
        match self {
            Rel::Eq => a == b,
            Rel::Ne => a != b,
            Rel::Lt => a < b,
            Rel::Le => a <= b,
            Rel::Gt => a > b,
            Rel::Ge => a >= b,
        }
    }
}

#[derive(Clone, Copy, PartialEq, Eq, Debug)]
pub enum Conn {
    And,
    Or,
    Imp,
    Rimp,
    Iff,
}

#[derive(Clone, Debug)]
pub enum F {
    True,
    False,
    Atom(String, Vec<Term>),
    Cmp(Term, Vec<(Rel, Term)>),
    Not(Box<F>),
    Bin(Conn, Box<F>, Box<F>),
    Q(bool, Vec<Vid>, Box<F>), // true = forall
}

struct Conv {
    scope: Vec<(String, Sort, Vid)>,
    sorts: Vec<Sort>,
    free: Vec<(String, Sort, Vid)>,
}

fn sort_of(s: fol::Sort) -> Sort {
    match s {
        fol::Sort::General => Sort::G,
        fol::Sort::Integer => Sort::I,
        fol::Sort::Symbol => Sort::S,
    }
}

impl Conv {
    fn lookup(&mut self, name: &str, sort: Sort) -> Vid {
        for (n, s, id) in self.scope.iter().rev() {
            if n == name && *s == sort {
                return *id;
            }
        }
        for (n, s, id) in self.free.iter() {
            if n == name && *s == sort {
                return *id;
            }
        }
        let id = self.sorts.len();
        self.sorts.push(sort);
        self.free.push((name.to_string(), sort, id));
        id
    }

    fn int(&mut self, t: &fol::IntegerTerm) -> Term {
        match t {
            fol::IntegerTerm::Numeral(n) => Term::Val(Value::Int(*n as i128)),
            fol::IntegerTerm::FunctionConstant(c) => Term::Const(c.clone(), Sort::I),
            fol::IntegerTerm::Variable(v) => Term::Var(self.lookup(v, Sort::I)),
            fol::IntegerTerm::UnaryOperation { arg, .. } => Term::Neg(Box::new(self.int(arg))),
            fol::IntegerTerm::BinaryOperation { op, lhs, rhs } => Term::Bin(
                match op {
                    fol::BinaryOperator::Add => Op::Add,
                    fol::BinaryOperator::Subtract => Op::Sub,
                    fol::BinaryOperator::Multiply => Op::Mul,
                },
                Box::new(self.int(lhs)),
                Box::new(self.int(rhs)),
            ),
        }
    }

    fn gterm(&mut self, t: &fol::GeneralTerm) -> Term {
        match t {
            fol::GeneralTerm::Infimum => Term::Val(Value::Inf),
            fol::GeneralTerm::Supremum => Term::Val(Value::Sup),
            fol::GeneralTerm::FunctionConstant(c) => Term::Const(c.clone(), Sort::G),
            fol::GeneralTerm::Variable(v) => Term::Var(self.lookup(v, Sort::G)),
            fol::GeneralTerm::IntegerTerm(t) => self.int(t),
            fol::GeneralTerm::SymbolicTerm(s) => match s {
                fol::SymbolicTerm::Symbol(s) => Term::Val(Value::Sym(s.clone())),
                fol::SymbolicTerm::FunctionConstant(c) => Term::Const(c.clone(), Sort::S),
                fol::SymbolicTerm::Variable(v) => Term::Var(self.lookup(v, Sort::S)),
            },
        }
    }

    fn rel(r: &fol::Relation) -> Rel {
        match r {
            fol::Relation::Equal => Rel::Eq,
            fol::Relation::NotEqual => Rel::Ne,
            fol::Relation::Less => Rel::Lt,
            fol::Relation::LessEqual => Rel::Le,
            fol::Relation::Greater => Rel::Gt,
            fol::Relation::GreaterEqual => Rel::Ge,
        }
    }

    fn formula(&mut self, f: &fol::Formula) -> F {
        match f {
            fol::Formula::AtomicFormula(a) => match a {
                fol::AtomicFormula::Truth => F::True,
                fol::AtomicFormula::Falsity => F::False,
                fol::AtomicFormula::Atom(a) => F::Atom(
                    a.predicate_symbol.clone(),
                    a.terms.iter().map(|t| self.gterm(t)).collect(),
                ),
                fol::AtomicFormula::Comparison(c) => {
                    let t0 = self.gterm(&c.term);
                    let gs = c
                        .guards
                        .iter()
                        .map(|g| (Self::rel(&g.relation), self.gterm(&g.term)))
                        .collect();
                    F::Cmp(t0, gs)
                }
            },
            fol::Formula::UnaryFormula { formula, .. } => F::Not(Box::new(self.formula(formula))),
            fol::Formula::BinaryFormula {
                connective,
                lhs,
                rhs,
            } => {
                let c = match connective {
                    fol::BinaryConnective::Conjunction => Conn::And,
                    fol::BinaryConnective::Disjunction => Conn::Or,
                    fol::BinaryConnective::Implication => Conn::Imp,
                    fol::BinaryConnective::ReverseImplication => Conn::Rimp,
                    fol::BinaryConnective::Equivalence => Conn::Iff,
                };
                F::Bin(c, Box::new(self.formula(lhs)), Box::new(self.formula(rhs)))
            }
            fol::Formula::QuantifiedFormula {
                quantification,
                formula,
            } => {
                let mut ids = Vec::new();
                let n0 = self.scope.len();
                for v in &quantification.variables {
                    let id = self.sorts.len();
                    let s = sort_of(v.sort);
                    self.sorts.push(s);
                    self.scope.push((v.name.clone(), s, id));
                    ids.push(id);
                }
                let body = self.formula(formula);
                self.scope.truncate(n0);
                F::Q(
                    matches!(quantification.quantifier, fol::Quantifier::Forall),
                    ids,
                    Box::new(body),
                )
            }
        }
    }
}

/// returns (formula, sort per variable id, free variables)
pub fn convert(f: &fol::Formula) -> (F, Vec<Sort>, Vec<(String, Sort, Vid)>) {
    let mut c = Conv {
        scope: vec![],
        sorts: vec![],
        free: vec![],
    };
    let r = c.formula(f);
    (r, c.sorts, c.free)
}
