use crate::kit::ir::{Conn, F, Op, Rel, Sort, Term, Vid};
use crate::kit::value::{Interp, Value};
use std::cell::Cell;
use std::collections::{BTreeMap, BTreeSet};

#[derive(Clone, Copy, PartialEq, Eq, Debug)]
pub enum Tv {
    T,
    F,
    U,
}
impl Tv {
    pub fn not(self) -> Tv {
        match self {
            Tv::T => Tv::F,
            Tv::F => Tv::T,
            Tv::U => Tv::U,
        }
    }
    pub fn and(self, o: Tv) -> Tv {
        match (self, o) {
            (Tv::F, _) | (_, Tv::F) => Tv::F,
            (Tv::T, Tv::T) => Tv::T,
            _ => Tv::U,
        }
    }
    pub fn or(self, o: Tv) -> Tv {
        self.not().and(o.not()).not()
    }
    pub fn imp(self, o: Tv) -> Tv {
        self.not().or(o)
    }
    pub fn of(b: bool) -> Tv {
        if b { Tv::T } else { Tv::F }
    }
}

#[derive(Clone, Copy, PartialEq, Eq, Debug)]
pub enum World {
    C, // classical: uses ctx.t
    H,
    T,
}

pub type Env = Vec<Option<Value>>;

#[derive(Clone, Debug)]
enum Gen {
    Eq(Term, Term),
    Ord(Term, Rel, Term), // Lt/Le/Gt/Ge/Ne
    InSet(String, Vec<Term>, bool /*use H*/),
    Impossible,
    Alt(Vec<Vec<Gen>>),
}

pub struct Ctx<'a> {
    pub h: &'a Interp,
    pub t: &'a Interp,
    pub consts: &'a BTreeMap<(String, Sort), Value>,
    pub sorts: Vec<Sort>,
    pub fallback: Vec<Value>,
    pub budget: Cell<i64>,
    pub incomplete_quants: Cell<u64>,
    /// how many universal instantiations the cover generator may still make for one quantifier
    pub inst_budget: Cell<u32>,
}

/// `f` with the variable `v` replaced by the value `val` (binder ids are unique, so there is no
/// capture to avoid)
fn subst_value(f: &F, v: Vid, val: &Value) -> F {
    fn term(t: &Term, v: Vid, val: &Value) -> Term {
        match t {
            Term::Var(x) if *x == v => Term::Val(val.clone()),
            Term::Neg(a) => Term::Neg(Box::new(term(a, v, val))),
            Term::Bin(op, a, b) => Term::Bin(*op, Box::new(term(a, v, val)), Box::new(term(b, v, val))),
            x => x.clone(),
        }
    }
    match f {
        F::True | F::False => f.clone(),
        F::Atom(p, ts) => F::Atom(p.clone(), ts.iter().map(|t| term(t, v, val)).collect()),
        F::Cmp(t0, gs) => F::Cmp(term(t0, v, val), gs.iter().map(|(r, t)| (*r, term(t, v, val))).collect()),
        F::Not(a) => F::Not(Box::new(subst_value(a, v, val))),
        F::Bin(c, a, b) => F::Bin(*c, Box::new(subst_value(a, v, val)), Box::new(subst_value(b, v, val))),
        F::Q(q, vars, body) => F::Q(*q, vars.clone(), Box::new(subst_value(body, v, val))),
    }
}

const RANGE_LIMIT: i128 = 4096;
const PRODUCT_LIMIT: usize = 20000;

fn collect_values(f: &F, out: &mut BTreeSet<Value>) {
    fn term(t: &Term, out: &mut BTreeSet<Value>) {
        match t {
            Term::Val(v) => {
                out.insert(v.clone());
            }
            Term::Neg(a) => term(a, out),
            Term::Bin(_, a, b) => {
                term(a, out);
                term(b, out)
            }
            _ => {}
        }
    }
    match f {
        F::Atom(_, ts) => ts.iter().for_each(|t| term(t, out)),
        F::Cmp(t0, gs) => {
            term(t0, out);
            gs.iter().for_each(|(_, t)| term(t, out))
        }
        F::Not(a) => collect_values(a, out),
        F::Bin(_, a, b) => {
            collect_values(a, out);
            collect_values(b, out)
        }
        F::Q(_, _, a) => collect_values(a, out),
        _ => {}
    }
}

impl<'a> Ctx<'a> {
    pub fn new(
        h: &'a Interp,
        t: &'a Interp,
        consts: &'a BTreeMap<(String, Sort), Value>,
        sorts: Vec<Sort>,
        f: &F,
    ) -> Self {
        let mut vals: BTreeSet<Value> = BTreeSet::new();
        for i in [h, t] {
            for e in i.preds.values() {
                for tp in &e.exc {
                    for v in tp {
                        vals.insert(v.clone());
                    }
                }
            }
        }
        for v in consts.values() {
            vals.insert(v.clone());
        }
        collect_values(f, &mut vals);
        let mut ints: Vec<i128> = vals
            .iter()
            .filter_map(|v| if let Value::Int(i) = v { Some(*i) } else { None })
            .collect();
        ints.extend([0, 1, -1]);
        let mx = ints.iter().map(|i| i.abs()).max().unwrap_or(0);
        let mut all: BTreeSet<Value> = vals.clone();
        for i in &ints {
            for d in -2..=2 {
                all.insert(Value::Int(i + d));
            }
        }
        all.insert(Value::Int(mx + 100));
        all.insert(Value::Int(-mx - 100));
        all.insert(Value::Inf);
        all.insert(Value::Sup);
        all.insert(Value::Sym("zz_fresh1".into()));
        all.insert(Value::Sym("zz_fresh2".into()));
        let mut fallback: Vec<Value> = all.into_iter().collect();
        fallback.sort();
        Ctx {
            h,
            t,
            consts,
            sorts,
            fallback,
            budget: Cell::new(2_000_000),
            incomplete_quants: Cell::new(0),
            inst_budget: Cell::new(0),
        }
    }

    fn interp(&self, w: World, use_h: bool) -> &Interp {
        if use_h || w == World::H { self.h } else { self.t }
    }

    pub fn term(&self, t: &Term, env: &Env) -> Option<Value> {
        match t {
            Term::Var(v) => env[*v].clone(),
            Term::Val(v) => Some(v.clone()),
            Term::Const(n, s) => self.consts.get(&(n.clone(), *s)).cloned(),
            Term::Neg(a) => match self.term(a, env)? {
                Value::Int(i) => i.checked_neg().map(Value::Int),
                _ => None,
            },
            Term::Bin(op, a, b) => match (self.term(a, env)?, self.term(b, env)?) {
                (Value::Int(x), Value::Int(y)) => match op {
                    Op::Add => x.checked_add(y),
                    Op::Sub => x.checked_sub(y),
                    Op::Mul => x.checked_mul(y),
                }
                .map(Value::Int),
                _ => None,
            },
        }
    }

    fn sort_ok(&self, v: Vid, val: &Value) -> bool {
        match self.sorts[v] {
            Sort::G => true,
            Sort::I => matches!(val, Value::Int(_)),
            Sort::S => matches!(val, Value::Sym(_)),
        }
    }

    pub fn eval(&self, f: &F, env: &Env, w: World) -> Tv {
        let b = self.budget.get() - 1;
        self.budget.set(b);
        if b < 0 {
            return Tv::U;
        }
        match f {
            F::True => Tv::T,
            F::False => Tv::F,
            F::Atom(p, ts) => {
                let mut tuple = Vec::with_capacity(ts.len());
                for t in ts {
                    match self.term(t, env) {
                        Some(v) => tuple.push(v),
                        None => return Tv::U,
                    }
                }
                Tv::of(self.interp(w, false).holds(p, &tuple))
            }
            F::Cmp(t0, gs) => {
                let mut res = Tv::T;
                let mut l = self.term(t0, env);
                for (r, t) in gs {
                    let rv = self.term(t, env);
                    let link = match (&l, &rv) {
                        (Some(a), Some(b)) => Tv::of(r.holds(a, b)),
                        _ => Tv::U,
                    };
                    res = res.and(link);
                    l = rv;
                }
                res
            }
            F::Not(a) => match w {
                World::H => self.eval(a, env, World::T).not(),
                _ => self.eval(a, env, w).not(),
            },
            F::Bin(c, a, b) => match c {
                Conn::And => {
                    let x = self.eval(a, env, w);
                    if x == Tv::F {
                        return Tv::F;
                    }
                    x.and(self.eval(b, env, w))
                }
                Conn::Or => {
                    let x = self.eval(a, env, w);
                    if x == Tv::T {
                        return Tv::T;
                    }
                    x.or(self.eval(b, env, w))
                }
                Conn::Imp => self.imp(a, b, env, w),
                Conn::Rimp => self.imp(b, a, env, w),
                Conn::Iff => self.imp(a, b, env, w).and(self.imp(b, a, env, w)),
            },
            F::Q(forall, vars, body) => self.quant(*forall, vars, body, env, w),
        }
    }

    fn imp(&self, a: &F, b: &F, env: &Env, w: World) -> Tv {
        match w {
            World::H => {
                let here = self.eval(a, env, World::H).imp(self.eval(b, env, World::H));
                if here == Tv::F {
                    return Tv::F;
                }
                here.and(self.eval(a, env, World::T).imp(self.eval(b, env, World::T)))
            }
            _ => self.eval(a, env, w).imp(self.eval(b, env, w)),
        }
    }

    // ---------------- necessary conditions ----------------
    fn nc(&self, f: &F, pos: bool, w: World, gens: &mut Vec<Gen>, helpers: &mut Vec<Vid>) {
        let wt = if w == World::H { World::T } else { w };
        match (f, pos) {
            (F::True, false) | (F::False, true) => gens.push(Gen::Impossible),
            (F::True, true) | (F::False, false) => {}
            (F::Atom(p, ts), pos) => {
                let use_h = w == World::H;
                let i = self.interp(w, false);
                let default = i.ext(p, ts.len()).map(|e| e.default).unwrap_or(false);
                // "true" needs default false; "not true" needs default true
                if pos != default {
                    gens.push(Gen::InSet(p.clone(), ts.clone(), use_h));
                }
            }
            (F::Cmp(t0, gs), true) => {
                let mut l = t0.clone();
                for (r, t) in gs {
                    // a link between a term and the same term plus a constant is decided by
                    // the constants (t + 1 <= t holds for no value of t)
                    match Self::decided(&l, *r, t) {
                        Some(false) => gens.push(Gen::Impossible),
                        Some(true) => {}
                        None => Self::push_link(gens, &l, *r, t),
                    }
                    l = t.clone();
                }
            }
            (F::Cmp(t0, gs), false) => {
                if gs.len() == 1 {
                    match Self::decided(t0, gs[0].0.neg(), &gs[0].1) {
                        Some(false) => gens.push(Gen::Impossible),
                        Some(true) => {}
                        None => Self::push_link(gens, t0, gs[0].0.neg(), &gs[0].1),
                    }
                } else {
                    let mut alts = Vec::new();
                    let mut l = t0.clone();
                    for (r, t) in gs {
                        let mut g = Vec::new();
                        Self::push_link(&mut g, &l, r.neg(), t);
                        alts.push(g);
                        l = t.clone();
                    }
                    gens.push(Gen::Alt(alts));
                }
            }
            (F::Not(a), pos) => self.nc(a, !pos, wt, gens, helpers),
            (F::Bin(Conn::And, a, b), true) | (F::Bin(Conn::Or, a, b), false) => {
                self.nc(a, pos, w, gens, helpers);
                self.nc(b, pos, w, gens, helpers);
            }
            (F::Bin(Conn::Or, a, b), true) | (F::Bin(Conn::And, a, b), false) => {
                let mut ga = Vec::new();
                let mut gb = Vec::new();
                self.nc(a, pos, w, &mut ga, helpers);
                self.nc(b, pos, w, &mut gb, helpers);
                gens.push(Gen::Alt(vec![ga, gb]));
            }
            (F::Bin(Conn::Imp, a, b), false) => {
                self.nc(a, true, wt, gens, helpers);
                if w != World::H {
                    self.nc(b, false, w, gens, helpers);
                }
            }
            (F::Bin(Conn::Rimp, b, a), false) => {
                self.nc(a, true, wt, gens, helpers);
                if w != World::H {
                    self.nc(b, false, w, gens, helpers);
                }
            }
            (F::Bin(Conn::Imp, a, b), true) | (F::Bin(Conn::Rimp, b, a), true) => {
                // here-and-there: (H,T) |= F -> G implies T |= F -> G, a necessary condition
                let mut ga = Vec::new();
                let mut gb = Vec::new();
                self.nc(a, false, wt, &mut ga, helpers);
                self.nc(b, true, wt, &mut gb, helpers);
                gens.push(Gen::Alt(vec![ga, gb]));
            }
            (F::Bin(Conn::Iff, a, b), false) => {
                if w == World::H {
                    let mut ga = Vec::new();
                    let mut gb = Vec::new();
                    self.nc(a, true, World::T, &mut ga, helpers);
                    self.nc(b, true, World::T, &mut gb, helpers);
                    gens.push(Gen::Alt(vec![ga, gb]));
                } else {
                    let mut g1 = Vec::new();
                    let mut g2 = Vec::new();
                    self.nc(a, true, w, &mut g1, helpers);
                    self.nc(b, false, w, &mut g1, helpers);
                    self.nc(a, false, w, &mut g2, helpers);
                    self.nc(b, true, w, &mut g2, helpers);
                    gens.push(Gen::Alt(vec![g1, g2]));
                }
            }
            (F::Bin(Conn::Iff, a, b), true) => {
                // here-and-there: (H,T) |= F <-> G implies T |= F <-> G, a necessary condition
                let mut g1 = Vec::new();
                let mut g2 = Vec::new();
                self.nc(a, true, wt, &mut g1, helpers);
                self.nc(b, true, wt, &mut g1, helpers);
                self.nc(a, false, wt, &mut g2, helpers);
                self.nc(b, false, wt, &mut g2, helpers);
                gens.push(Gen::Alt(vec![g1, g2]));
            }
            (F::Q(forall, vars, body), pos) => {
                // exists in positive position / forall in negative position: helpers
                if *forall != pos {
                    helpers.extend(vars.iter().cloned());
                    self.nc(body, pos, w, gens, helpers);
                } else if vars.len() <= 2 && self.inst_budget.get() >= 2 {
                    // forall in positive position / exists in negative position: the body must
                    // have the demanded value for EVERY value of the bound variables, in
                    // particular for two sample values; the necessary conditions of both
                    // instances hold together (universal instantiation). This decides shapes
                    // like "for all X there is I with (I = X and A) -> B" (take I different
                    // from X) that have no finite cover otherwise.
                    self.inst_budget.set(self.inst_budget.get() - 2);
                    for k in 0..2usize {
                        let mut inst: F = (**body).clone();
                        let mut ok = true;
                        for v in vars {
                            let cands: Vec<&Value> = self.fallback.iter().filter(|x| self.sort_ok(*v, x)).collect();
                            match cands.get(k.min(cands.len().saturating_sub(1))) {
                                Some(val) if cands.len() > k => inst = subst_value(&inst, *v, val),
                                _ => ok = false,
                            }
                        }
                        if ok {
                            self.nc(&inst, pos, w, gens, helpers);
                        }
                    }
                }
            }
        }
    }

    /// `t` as (base, constant offset): X + 2 is (X, 2), 3 is (none, 3), X * Y is (X * Y, 0)
    fn offset_form(t: &Term) -> (Option<&Term>, i128) {
        match t {
            Term::Val(Value::Int(c)) => (None, *c),
            Term::Bin(Op::Add, a, b) => match (&**a, &**b) {
                (_, Term::Val(Value::Int(c))) => {
                    let (base, o) = Self::offset_form(a);
                    (base, o.saturating_add(*c))
                }
                (Term::Val(Value::Int(c)), _) => {
                    let (base, o) = Self::offset_form(b);
                    (base, o.saturating_add(*c))
                }
                _ => (Some(t), 0),
            },
            Term::Bin(Op::Sub, a, b) => match &**b {
                Term::Val(Value::Int(c)) => {
                    let (base, o) = Self::offset_form(a);
                    (base, o.saturating_sub(*c))
                }
                _ => (Some(t), 0),
            },
            _ => (Some(t), 0),
        }
    }

    /// the truth value of `l r t` when it does not depend on the assignment: both sides are the
    /// same integer term up to constant offsets (or the very same term)
    fn decided(l: &Term, r: Rel, t: &Term) -> Option<bool> {
        if l == t && !matches!(l, Term::Val(_)) {
            return Some(matches!(r, Rel::Eq | Rel::Le | Rel::Ge));
        }
        let (bl, ol) = Self::offset_form(l);
        let (bt, ot) = Self::offset_form(t);
        // only for integer-valued bases (a sum or difference was seen on at least one side)
        let arithmetic = matches!(l, Term::Bin(..)) || matches!(t, Term::Bin(..));
        match (bl, bt) {
            (Some(a), Some(b)) if a == b && arithmetic => Some(r.holds(&Value::Int(ol), &Value::Int(ot))),
            _ => None,
        }
    }

    fn push_link(gens: &mut Vec<Gen>, l: &Term, r: Rel, t: &Term) {
        match r {
            Rel::Eq => gens.push(Gen::Eq(l.clone(), t.clone())),
            _ => gens.push(Gen::Ord(l.clone(), r, t.clone())),
        }
    }

    // ---------------- solving ----------------
    fn contains(t: &Term, v: Vid) -> usize {
        match t {
            Term::Var(x) => (*x == v) as usize,
            Term::Neg(a) => Self::contains(a, v),
            Term::Bin(_, a, b) => Self::contains(a, v) + Self::contains(b, v),
            _ => 0,
        }
    }

    /// candidates for v such that term == target; None = cannot bound
    fn invert(&self, term: &Term, v: Vid, target: &Value, env: &Env) -> Option<Vec<Value>> {
        match term {
            Term::Var(x) if *x == v => Some(vec![target.clone()]),
            Term::Neg(a) => match target {
                Value::Int(i) => self.invert(a, v, &Value::Int(i.checked_neg()?), env),
                _ => Some(vec![]),
            },
            Term::Bin(op, a, b) => {
                let Value::Int(tg) = target else {
                    return Some(vec![]);
                };
                let (ca, cb) = (Self::contains(a, v), Self::contains(b, v));
                if ca == 1 && cb == 0 {
                    let Value::Int(bv) = self.term(b, env)? else {
                        return Some(vec![]);
                    };
                    match op {
                        Op::Add => self.invert(a, v, &Value::Int(tg.checked_sub(bv)?), env),
                        Op::Sub => self.invert(a, v, &Value::Int(tg.checked_add(bv)?), env),
                        Op::Mul => {
                            if bv == 0 {
                                if *tg == 0 { None } else { Some(vec![]) }
                            } else if tg % bv != 0 {
                                Some(vec![])
                            } else {
                                self.invert(a, v, &Value::Int(tg / bv), env)
                            }
                        }
                    }
                } else if ca == 0 && cb == 1 {
                    let Value::Int(av) = self.term(a, env)? else {
                        return Some(vec![]);
                    };
                    match op {
                        Op::Add => self.invert(b, v, &Value::Int(tg.checked_sub(av)?), env),
                        Op::Sub => self.invert(b, v, &Value::Int(av.checked_sub(*tg)?), env),
                        Op::Mul => {
                            if av == 0 {
                                if *tg == 0 { None } else { Some(vec![]) }
                            } else if tg % av != 0 {
                                Some(vec![])
                            } else {
                                self.invert(b, v, &Value::Int(tg / av), env)
                            }
                        }
                    }
                } else {
                    None
                }
            }
            _ => None,
        }
    }

    fn unbound_vars(t: &Term, env: &Env, out: &mut Vec<Vid>) {
        match t {
            Term::Var(x) => {
                if env[*x].is_none() && !out.contains(x) {
                    out.push(*x)
                }
            }
            Term::Neg(a) => Self::unbound_vars(a, env, out),
            Term::Bin(_, a, b) => {
                Self::unbound_vars(a, env, out);
                Self::unbound_vars(b, env, out)
            }
            _ => {}
        }
    }

    fn cands_eq(&self, a: &Term, b: &Term, v: Vid, env: &Env) -> Option<Vec<Value>> {
        if Self::contains(a, v) == 1 && Self::contains(b, v) == 0 {
            if let Some(bv) = self.term(b, env) {
                // other variables of a must be bound
                let mut u = Vec::new();
                Self::unbound_vars(a, env, &mut u);
                if u == vec![v] {
                    return self.invert(a, v, &bv, env);
                }
            }
        }
        if Self::contains(b, v) == 1 && Self::contains(a, v) == 0 {
            if let Some(av) = self.term(a, env) {
                let mut u = Vec::new();
                Self::unbound_vars(b, env, &mut u);
                if u == vec![v] {
                    return self.invert(b, v, &av, env);
                }
            }
        }
        None
    }

    fn cands_inset(&self, p: &str, ts: &[Term], use_h: bool, v: Vid, env: &Env) -> Option<Vec<Value>> {
        let i = if use_h { self.h } else { self.t };
        let Some(ext) = i.ext(p, ts.len()) else {
            return Some(vec![]); // unknown predicate: empty extent, default false
        };
        // positions usable for v
        let mut best: Option<Vec<Value>> = None;
        for (k, tk) in ts.iter().enumerate() {
            if Self::contains(tk, v) != 1 {
                continue;
            }
            let mut u = Vec::new();
            Self::unbound_vars(tk, env, &mut u);
            if u != vec![v] {
                continue;
            }
            let mut out: Vec<Value> = Vec::new();
            let mut ok = true;
            'tuples: for tp in &ext.exc {
                for (j, tj) in ts.iter().enumerate() {
                    if j != k {
                        if let Some(val) = self.term(tj, env) {
                            if val != tp[j] {
                                continue 'tuples;
                            }
                        }
                    }
                }
                match self.invert(tk, v, &tp[k], env) {
                    Some(c) => {
                        for x in c {
                            if !out.contains(&x) {
                                out.push(x)
                            }
                        }
                    }
                    None => {
                        ok = false;
                        break;
                    }
                }
            }
            if ok && best.as_ref().map(|b| out.len() < b.len()).unwrap_or(true) {
                best = Some(out);
            }
        }
        best
    }

    fn cands_range(&self, gens: &[Gen], v: Vid, env: &Env) -> Option<Vec<Value>> {
        let mut lo: Option<i128> = None;
        let mut hi: Option<i128> = None;
        let mut empty = false;
        for g in gens {
            if let Gen::Ord(a, r, b) = g {
                // normalise to v REL value
                let (rel, val) = if *a == Term::Var(v) {
                    match self.term(b, env) {
                        Some(x) => (*r, x),
                        None => continue,
                    }
                } else if *b == Term::Var(v) {
                    let flipped = match r {
                        Rel::Lt => Rel::Gt,
                        Rel::Le => Rel::Ge,
                        Rel::Gt => Rel::Lt,
                        Rel::Ge => Rel::Le,
                        x => *x,
                    };
                    match self.term(a, env) {
                        Some(x) => (flipped, x),
                        None => continue,
                    }
                } else {
                    continue;
                };
                let is_int_var = self.sorts[v] == Sort::I;
                match (rel, &val) {
                    (Rel::Ge, Value::Int(i)) => lo = Some(lo.map_or(*i, |l| l.max(*i))),
                    (Rel::Gt, Value::Int(i)) => {
                        let x = i.checked_add(1)?;
                        lo = Some(lo.map_or(x, |l| l.max(x)))
                    }
                    (Rel::Le, Value::Int(i)) => hi = Some(hi.map_or(*i, |h| h.min(*i))),
                    (Rel::Lt, Value::Int(i)) => {
                        let x = i.checked_sub(1)?;
                        hi = Some(hi.map_or(x, |h| h.min(x)))
                    }
                    // integer variable above a symbol/#sup or below #inf: impossible
                    (Rel::Ge | Rel::Gt, Value::Sym(_) | Value::Sup) if is_int_var => empty = true,
                    (Rel::Le | Rel::Lt, Value::Inf) if is_int_var => empty = true,
                    _ => {}
                }
            }
        }
        if empty {
            return Some(vec![]);
        }
        match (lo, hi) {
            (Some(l), Some(h)) => {
                if h < l {
                    Some(vec![])
                } else if h - l + 1 > RANGE_LIMIT {
                    None
                } else {
                    Some((l..=h).map(Value::Int).collect())
                }
            }
            _ => None,
        }
    }

    fn gen_false(&self, g: &Gen, env: &Env) -> bool {
        match g {
            Gen::Impossible => true,
            Gen::Eq(a, b) => match (self.term(a, env), self.term(b, env)) {
                (Some(x), Some(y)) => x != y,
                _ => false,
            },
            Gen::Ord(a, r, b) => match (self.term(a, env), self.term(b, env)) {
                (Some(x), Some(y)) => !r.holds(&x, &y),
                _ => false,
            },
            Gen::InSet(p, ts, use_h) => {
                let mut tuple = Vec::new();
                for t in ts {
                    match self.term(t, env) {
                        Some(v) => tuple.push(v),
                        None => return false,
                    }
                }
                let i = if *use_h { self.h } else { self.t };
                match i.ext(p, ts.len()) {
                    Some(e) => !e.exc.contains(&tuple),
                    None => true,
                }
            }
            Gen::Alt(_) => false,
        }
    }

    /// returns completeness; pushes assignments of `block`
    fn solve(
        &self,
        gens: &[Gen],
        block: &[Vid],
        helpers: &[Vid],
        env: &mut Env,
        out: &mut BTreeSet<Vec<Value>>,
    ) -> bool {
        let b = self.budget.get() - 1;
        self.budget.set(b);
        if b < 0 {
            return false;
        }
        if gens.iter().any(|g| self.gen_false(g, env)) {
            return true;
        }
        if block.iter().all(|v| env[*v].is_some()) {
            out.insert(block.iter().map(|v| env[*v].clone().unwrap()).collect());
            return out.len() <= PRODUCT_LIMIT;
        }
        // choose (variable, candidates)
        let mut best: Option<(Vid, Vec<Value>)> = None;
        let unbound: Vec<Vid> = block
            .iter()
            .chain(helpers.iter())
            .cloned()
            .filter(|v| env[*v].is_none())
            .collect();
        for &v in &unbound {
            let mut consider = |c: Option<Vec<Value>>| {
                if let Some(c) = c {
                    let c: Vec<Value> = c.into_iter().filter(|x| self.sort_ok(v, x)).collect();
                    if best.as_ref().map(|(_, b)| c.len() < b.len()).unwrap_or(true) {
                        best = Some((v, c));
                    }
                }
            };
            for g in gens {
                match g {
                    Gen::Eq(a, b) => consider(self.cands_eq(a, b, v, env)),
                    Gen::InSet(p, ts, use_h) => consider(self.cands_inset(p, ts, *use_h, v, env)),
                    _ => {}
                }
            }
            consider(self.cands_range(gens, v, env));
        }
        if let Some((v, cands)) = best {
            let mut complete = true;
            for c in cands {
                env[v] = Some(c);
                complete &= self.solve(gens, block, helpers, env, out);
                env[v] = None;
                if !complete {
                    break;
                }
            }
            return complete;
        }
        // no direct progress: expand the first Alt
        if let Some(pos) = gens.iter().position(|g| matches!(g, Gen::Alt(_))) {
            let Gen::Alt(alts) = &gens[pos] else { unreachable!() };
            let mut complete = true;
            for alt in alts {
                let mut g2: Vec<Gen> = gens.to_vec();
                g2.remove(pos);
                g2.extend(alt.iter().cloned());
                complete &= self.solve(&g2, block, helpers, env, out);
                if !complete {
                    break;
                }
            }
            return complete;
        }
        false
    }

    fn quant(&self, forall: bool, vars: &[Vid], body: &F, env: &Env, w: World) -> Tv {
        let mut gens = Vec::new();
        let mut helpers = Vec::new();
        self.inst_budget.set(8);
        // exists: body must be true; forall: counterexample = body not true
        self.nc(body, !forall, w, &mut gens, &mut helpers);
        let mut env2 = env.clone();
        for v in vars.iter().chain(helpers.iter()) {
            env2[*v] = None;
        }
        let mut out = BTreeSet::new();
        let complete = self.solve(&gens, vars, &helpers, &mut env2, &mut out);
        let decisive = if forall { Tv::F } else { Tv::T };
        let mut saw_u = false;
        let try_assign = |vals: &[Value], saw_u: &mut bool| -> bool {
            let mut e = env.clone();
            for (v, x) in vars.iter().zip(vals.iter()) {
                e[*v] = Some(x.clone());
            }
            let r = self.eval(body, &e, w);
            if r == decisive {
                return true;
            }
            if r == Tv::U {
                *saw_u = true;
            }
            false
        };
        for a in &out {
            if try_assign(a, &mut saw_u) {
                return decisive;
            }
        }
        if complete {
            return if saw_u { Tv::U } else { decisive.not() };
        }
        self.incomplete_quants.set(self.incomplete_quants.get() + 1);
        // fallback sampling: only decisive outcomes count
        let doms: Vec<Vec<&Value>> = vars
            .iter()
            .map(|v| self.fallback.iter().filter(|x| self.sort_ok(*v, x)).collect())
            .collect();
        let total: usize = doms.iter().map(|d| d.len().max(1)).product();
        if doms.iter().any(|d| d.is_empty()) {
            return Tv::U;
        }
        let n = total.min(PRODUCT_LIMIT);
        for k in 0..n {
            // mixed radix (deterministic stride when capped)
            let mut idx = if total <= PRODUCT_LIMIT { k } else { k.wrapping_mul(2654435761) % total };
            let mut vals = Vec::with_capacity(vars.len());
            for d in &doms {
                vals.push(d[idx % d.len()].clone());
                idx /= d.len();
            }
            if try_assign(&vals, &mut saw_u) {
                return decisive;
            }
        }
        Tv::U
    }
}

// ---------------------------------------------------------------------------------------------
// convenience layer used by the monitors

pub type Consts = BTreeMap<(String, Sort), Value>;
pub type Assign = BTreeMap<(String, Sort), Value>;

#[derive(Default, Clone, Copy, Debug)]
pub struct EvalStats {
    pub incomplete_quants: u64,
    pub budget_exhausted: bool,
}

/// Truth value of `f` at world `w` of the HT interpretation (h, t) (classical: pass the same
/// interpretation twice and `World::C`) under function-constant values `consts` and the free
/// variable assignment `assign`. A free variable without a value makes the result U.
pub fn eval_fol(
    f: &anthem::syntax_tree::fol::sigma_0::Formula,
    h: &Interp,
    t: &Interp,
    consts: &Consts,
    assign: &Assign,
    w: World,
) -> (Tv, EvalStats) {
    let (irf, sorts, free) = crate::kit::ir::convert(f);
    let ctx = Ctx::new(h, t, consts, sorts.clone(), &irf);
    let mut env: Env = vec![None; sorts.len()];
    for (n, s, id) in &free {
        match assign.get(&(n.clone(), *s)) {
            Some(v) => env[*id] = Some(v.clone()),
            None => return (Tv::U, EvalStats::default()),
        }
    }
    let r = ctx.eval(&irf, &env, w);
    (
        r,
        EvalStats {
            incomplete_quants: ctx.incomplete_quants.get(),
            budget_exhausted: ctx.budget.get() < 0,
        },
    )
}

/// value of a term under an assignment (None: undefined / overflow / unbound variable)
pub fn eval_term(
    t: &anthem::syntax_tree::fol::sigma_0::GeneralTerm,
    consts: &Consts,
    assign: &Assign,
) -> Option<Value> {
    use anthem::syntax_tree::fol::sigma_0 as fol;
    let tf = fol::Formula::AtomicFormula(fol::AtomicFormula::Comparison(fol::Comparison {
        term: t.clone(),
        guards: vec![],
    }));
    let (irt, sorts, free) = crate::kit::ir::convert(&tf);
    let e = Interp::default();
    let ctx = Ctx::new(&e, &e, consts, sorts.clone(), &irt);
    let mut env: Env = vec![None; sorts.len()];
    for (n, s, id) in &free {
        env[*id] = Some(assign.get(&(n.clone(), *s))?.clone());
    }
    let F::Cmp(t0, _) = &irt else { unreachable!() };
    ctx.term(t0, &env)
}

pub fn all3(vs: impl IntoIterator<Item = Tv>) -> Tv {
    let mut r = Tv::T;
    for v in vs {
        r = match (r, v) {
            (Tv::F, _) | (_, Tv::F) => Tv::F,
            (Tv::T, Tv::T) => Tv::T,
            _ => Tv::U,
        };
        if r == Tv::F {
            return r;
        }
    }
    r
}

/// evaluates a closed formula given in internal form (used by the TPTP reader)
pub fn eval_ir(f: &F, sorts: Vec<Sort>, h: &Interp, t: &Interp, consts: &Consts, w: World) -> (Tv, EvalStats) {
    let ctx = Ctx::new(h, t, consts, sorts.clone(), f);
    let env: Env = vec![None; sorts.len()];
    let r = ctx.eval(f, &env, w);
    (r, EvalStats { incomplete_quants: ctx.incomplete_quants.get(), budget_exhausted: ctx.budget.get() < 0 })
}
