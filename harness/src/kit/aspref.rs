//! Reference semantics of mini-gringo programs (DESIGN.md Appendix B), written from the
//! definition of the language, independent of anthem's translations: values of ground terms,
//! HT satisfaction of ground rule instances, reduct-based stable models.
//!
//! Variables range over the whole (infinite) standard domain. Substitutions are enumerated by a
//! cover search over the rule body: a variable is *covered* when some body element yields a
//! finite set provably containing every value with which the body can hold. Uncovered variables
//! are sampled from fallback candidates; then only a violated instance is a verdict, "no
//! violated instance found" is Unknown.
use crate::kit::eval::Tv;
use crate::kit::value::{Ext, Interp, Value};
use anthem::syntax_tree::asp::mini_gringo as asp;
use std::cell::Cell;
use std::collections::{BTreeMap, BTreeSet};

#[derive(Clone, Copy, PartialEq, Eq, Debug)]
pub enum DivConv {
    /// the repository's documented convention: floor division, positive divisors only
    Repo,
    /// floor division for every non-zero divisor (Abstract Gringo)
    FloorAll,
    /// truncating division (clingo)
    Truncate,
}

#[derive(Default, Debug)]
pub struct RefStats {
    pub instances: Cell<u64>,
    pub neg_divisor: Cell<u64>,
    pub uncovered_searches: Cell<u64>,
    pub interval_values: Cell<u64>,
    pub undefined_arith: Cell<u64>,
}

pub type Theta = BTreeMap<String, Value>;
pub type AtomSet = BTreeSet<(String, Vec<Value>)>;

const RANGE_LIMIT: i128 = 4096;
const THETA_LIMIT: usize = 20000;

pub struct Ref<'a> {
    pub placeholders: &'a BTreeMap<String, Value>,
    pub div: DivConv,
    pub stats: &'a RefStats,
}

#[derive(Debug)]
pub struct Unknown;

fn push_unique(out: &mut Vec<Value>, v: Value) {
    if !out.contains(&v) {
        out.push(v)
    }
}

fn rel_holds(r: asp::Relation, a: &Value, b: &Value) -> bool {
    match r {
        asp::Relation::Equal => a == b,
        asp::Relation::NotEqual => a != b,
        asp::Relation::Less => a < b,
        asp::Relation::LessEqual => a <= b,
        asp::Relation::Greater => a > b,
        asp::Relation::GreaterEqual => a >= b,
    }
}

fn count_var(t: &asp::Term, v: &str) -> usize {
    match t {
        asp::Term::Variable(x) => (x.0 == v) as usize,
        asp::Term::PrecomputedTerm(_) => 0,
        asp::Term::UnaryOperation { arg, .. } => count_var(arg, v),
        asp::Term::BinaryOperation { lhs, rhs, .. } => count_var(lhs, v) + count_var(rhs, v),
    }
}

fn unbound(t: &asp::Term, th: &Theta, out: &mut Vec<String>) {
    match t {
        asp::Term::Variable(x) => {
            if !th.contains_key(&x.0) && !out.contains(&x.0) {
                out.push(x.0.clone())
            }
        }
        asp::Term::PrecomputedTerm(_) => {}
        asp::Term::UnaryOperation { arg, .. } => unbound(arg, th, out),
        asp::Term::BinaryOperation { lhs, rhs, .. } => {
            unbound(lhs, th, out);
            unbound(rhs, th, out)
        }
    }
}

fn fully_bound(t: &asp::Term, th: &Theta) -> bool {
    let mut u = Vec::new();
    unbound(t, th, &mut u);
    u.is_empty()
}

impl<'a> Ref<'a> {
    /// the finite set of values of a ground term (term under a substitution)
    pub fn vals(&self, t: &asp::Term, th: &Theta) -> Result<Vec<Value>, Unknown> {
        Ok(match t {
            asp::Term::PrecomputedTerm(p) => vec![match p {
                asp::PrecomputedTerm::Infimum => Value::Inf,
                asp::PrecomputedTerm::Supremum => Value::Sup,
                asp::PrecomputedTerm::Numeral(n) => Value::Int(*n as i128),
                asp::PrecomputedTerm::Symbol(s) => match self.placeholders.get(s) {
                    Some(v) => v.clone(),
                    None => Value::Sym(s.clone()),
                },
            }],
            asp::Term::Variable(v) => vec![th.get(&v.0).ok_or(Unknown)?.clone()],
            asp::Term::UnaryOperation { arg, .. } => {
                let mut out = Vec::new();
                for v in self.vals(arg, th)? {
                    match v {
                        Value::Int(i) => push_unique(&mut out, Value::Int(i.checked_neg().ok_or(Unknown)?)),
                        _ => self.stats.undefined_arith.set(self.stats.undefined_arith.get() + 1),
                    }
                }
                out
            }
            asp::Term::BinaryOperation { op, lhs, rhs } => {
                let a = self.vals(lhs, th)?;
                let b = self.vals(rhs, th)?;
                let mut out: Vec<Value> = Vec::new();
                for x in &a {
                    for y in &b {
                        let (Value::Int(i), Value::Int(j)) = (x, y) else {
                            self.stats.undefined_arith.set(self.stats.undefined_arith.get() + 1);
                            continue;
                        };
                        let (i, j) = (*i, *j);
                        match op {
                            asp::BinaryOperator::Add => push_unique(&mut out, Value::Int(i.checked_add(j).ok_or(Unknown)?)),
                            asp::BinaryOperator::Subtract => push_unique(&mut out, Value::Int(i.checked_sub(j).ok_or(Unknown)?)),
                            asp::BinaryOperator::Multiply => push_unique(&mut out, Value::Int(i.checked_mul(j).ok_or(Unknown)?)),
                            asp::BinaryOperator::Divide | asp::BinaryOperator::Modulo => {
                                if j < 0 {
                                    self.stats.neg_divisor.set(self.stats.neg_divisor.get() + 1);
                                }
                                let qr = match self.div {
                                    DivConv::Repo => {
                                        if j > 0 { Some((i.div_euclid(j), i.rem_euclid(j))) } else { None }
                                    }
                                    DivConv::FloorAll => {
                                        if j != 0 {
                                            let mut q = i / j;
                                            if (i % j != 0) && ((i < 0) != (j < 0)) {
                                                q -= 1;
                                            }
                                            Some((q, i - j * q))
                                        } else {
                                            None
                                        }
                                    }
                                    DivConv::Truncate => {
                                        if j != 0 { Some((i / j, i % j)) } else { None }
                                    }
                                };
                                if let Some((q, r)) = qr {
                                    push_unique(
                                        &mut out,
                                        Value::Int(if matches!(op, asp::BinaryOperator::Divide) { q } else { r }),
                                    );
                                }
                            }
                            asp::BinaryOperator::Interval => {
                                if j.checked_sub(i).ok_or(Unknown)? > RANGE_LIMIT {
                                    return Err(Unknown);
                                }
                                let mut k = i;
                                while k <= j {
                                    push_unique(&mut out, Value::Int(k));
                                    self.stats.interval_values.set(self.stats.interval_values.get() + 1);
                                    k += 1;
                                }
                            }
                        }
                        if out.len() > RANGE_LIMIT as usize {
                            return Err(Unknown);
                        }
                    }
                }
                out
            }
        })
    }

    pub fn tuples(&self, ts: &[asp::Term], th: &Theta) -> Result<Vec<Vec<Value>>, Unknown> {
        let mut acc: Vec<Vec<Value>> = vec![vec![]];
        for t in ts {
            let vs = self.vals(t, th)?;
            let mut next = Vec::new();
            for a in &acc {
                for v in &vs {
                    let mut x = a.clone();
                    x.push(v.clone());
                    next.push(x);
                }
            }
            if next.len() > THETA_LIMIT {
                return Err(Unknown);
            }
            acc = next;
        }
        Ok(acc)
    }

    fn body_elem_holds(&self, f: &asp::AtomicFormula, wi: &Interp, t: &Interp, th: &Theta) -> Result<bool, Unknown> {
        Ok(match f {
            asp::AtomicFormula::Literal(l) => {
                let tps = self.tuples(&l.atom.terms, th)?;
                let p = &l.atom.predicate_symbol;
                match l.sign {
                    asp::Sign::NoSign => tps.iter().any(|x| wi.holds(p, x)),
                    asp::Sign::Negation => tps.iter().any(|x| !t.holds(p, x)),
                    asp::Sign::DoubleNegation => tps.iter().any(|x| t.holds(p, x)),
                }
            }
            asp::AtomicFormula::Comparison(c) => {
                let a = self.vals(&c.lhs, th)?;
                let b = self.vals(&c.rhs, th)?;
                a.iter().any(|x| b.iter().any(|y| rel_holds(c.relation, x, y)))
            }
        })
    }

    /// truth of the body at the world whose atoms are `wi` (negations always read `t`)
    pub fn body_holds(&self, b: &asp::Body, wi: &Interp, t: &Interp, th: &Theta) -> Result<bool, Unknown> {
        for f in &b.formulas {
            if !self.body_elem_holds(f, wi, t, th)? {
                return Ok(false);
            }
        }
        Ok(true)
    }

    pub fn head_holds(&self, h: &asp::Head, wi: &Interp, t: &Interp, th: &Theta) -> Result<bool, Unknown> {
        Ok(match h {
            asp::Head::Falsity => false,
            asp::Head::Basic(a) => self.tuples(&a.terms, th)?.iter().all(|x| wi.holds(&a.predicate_symbol, x)),
            asp::Head::Choice(a) => self
                .tuples(&a.terms, th)?
                .iter()
                .all(|x| wi.holds(&a.predicate_symbol, x) || !t.holds(&a.predicate_symbol, x)),
        })
    }

    // ------------------------------------------------------------------ cover search

    /// all values of `v` for which `term` can take the value `target` (None: cannot bound)
    fn invert(&self, term: &asp::Term, v: &str, target: &Value, th: &Theta) -> Option<Vec<Value>> {
        match term {
            asp::Term::Variable(x) if x.0 == v => Some(vec![target.clone()]),
            asp::Term::UnaryOperation { arg, .. } => match target {
                Value::Int(i) => self.invert(arg, v, &Value::Int(i.checked_neg()?), th),
                _ => Some(vec![]),
            },
            asp::Term::BinaryOperation { op, lhs, rhs } => {
                let Value::Int(tg) = target else {
                    return Some(vec![]);
                };
                let tg = *tg;
                let (cl, cr) = (count_var(lhs, v), count_var(rhs, v));
                let (inner, other, var_left) = if cl == 1 && cr == 0 {
                    (lhs, rhs, true)
                } else if cl == 0 && cr == 1 {
                    (rhs, lhs, false)
                } else {
                    return None;
                };
                let others = self.vals(other, th).ok()?;
                let mut out = Vec::new();
                for o in others {
                    let Value::Int(o) = o else { continue };
                    let sub_target = match op {
                        asp::BinaryOperator::Add => tg.checked_sub(o)?,
                        asp::BinaryOperator::Subtract => {
                            if var_left { tg.checked_add(o)? } else { o.checked_sub(tg)? }
                        }
                        asp::BinaryOperator::Multiply => {
                            if o == 0 {
                                if tg == 0 {
                                    return None;
                                } else {
                                    continue;
                                }
                            }
                            if tg % o != 0 {
                                continue;
                            }
                            tg / o
                        }
                        _ => return None,
                    };
                    for c in self.invert(inner, v, &Value::Int(sub_target), th)? {
                        push_unique(&mut out, c);
                    }
                }
                Some(out)
            }
            _ => None,
        }
    }

    fn only_unbound(t: &asp::Term, v: &str, th: &Theta) -> bool {
        let mut u = Vec::new();
        unbound(t, th, &mut u);
        u.len() == 1 && u[0] == v && count_var(t, v) == 1
    }

    fn cands_atom(&self, atom: &asp::Atom, ext: &Ext, v: &str, th: &Theta) -> Option<Vec<Value>> {
        let mut best: Option<Vec<Value>> = None;
        for (k, tk) in atom.terms.iter().enumerate() {
            if !Self::only_unbound(tk, v, th) {
                continue;
            }
            // values of the other, fully bound positions (used as a filter)
            let others: Vec<Option<Vec<Value>>> = atom
                .terms
                .iter()
                .enumerate()
                .map(|(j, tj)| if j != k && fully_bound(tj, th) { self.vals(tj, th).ok() } else { None })
                .collect();
            let mut out = Vec::new();
            let mut ok = true;
            'tuples: for tp in &ext.exc {
                for (j, o) in others.iter().enumerate() {
                    if let Some(vs) = o {
                        if !vs.contains(&tp[j]) {
                            continue 'tuples;
                        }
                    }
                }
                match self.invert(tk, v, &tp[k], th) {
                    Some(c) => c.into_iter().for_each(|x| push_unique(&mut out, x)),
                    None => {
                        ok = false;
                        break;
                    }
                }
            }
            if ok && best.as_ref().map(|b| out.len() < b.len()).unwrap_or(true) {
                best = Some(out);
            }
        }
        best
    }

    fn cands_for(&self, body: &asp::Body, pos: &Interp, t: &Interp, v: &str, th: &Theta) -> Option<Vec<Value>> {
        let mut best: Option<Vec<Value>> = None;
        let mut consider = |c: Option<Vec<Value>>| {
            if let Some(c) = c {
                if best.as_ref().map(|b| c.len() < b.len()).unwrap_or(true) {
                    best = Some(c);
                }
            }
        };
        let mut lo: Option<i128> = None;
        let mut hi: Option<i128> = None;
        for f in &body.formulas {
            match f {
                asp::AtomicFormula::Literal(l) => {
                    let n = l.atom.terms.len();
                    let p = &l.atom.predicate_symbol;
                    let empty = Ext::default();
                    match l.sign {
                        asp::Sign::NoSign => {
                            let e = pos.ext(p, n).unwrap_or(&empty);
                            if !e.default {
                                consider(self.cands_atom(&l.atom, e, v, th));
                            }
                        }
                        asp::Sign::DoubleNegation => {
                            let e = t.ext(p, n).unwrap_or(&empty);
                            if !e.default {
                                consider(self.cands_atom(&l.atom, e, v, th));
                            }
                        }
                        asp::Sign::Negation => {
                            let e = t.ext(p, n).unwrap_or(&empty);
                            if e.default {
                                consider(self.cands_atom(&l.atom, e, v, th));
                            }
                        }
                    }
                }
                asp::AtomicFormula::Comparison(c) => {
                    if c.relation == asp::Relation::Equal {
                        for (a, b) in [(&c.lhs, &c.rhs), (&c.rhs, &c.lhs)] {
                            if Self::only_unbound(a, v, th) && fully_bound(b, th) {
                                if let Ok(bvs) = self.vals(b, th) {
                                    let mut out = Vec::new();
                                    let mut ok = true;
                                    for bv in &bvs {
                                        match self.invert(a, v, bv, th) {
                                            Some(cs) => cs.into_iter().for_each(|x| push_unique(&mut out, x)),
                                            None => {
                                                ok = false;
                                                break;
                                            }
                                        }
                                    }
                                    if ok {
                                        consider(Some(out));
                                    }
                                }
                            }
                        }
                    } else {
                        // v REL t or t REL v with t evaluable: integer bounds
                        let is_v = |t: &asp::Term| matches!(t, asp::Term::Variable(x) if x.0 == v);
                        let (rel, other) = if is_v(&c.lhs) && fully_bound(&c.rhs, th) {
                            (c.relation, &c.rhs)
                        } else if is_v(&c.rhs) && fully_bound(&c.lhs, th) {
                            (
                                match c.relation {
                                    asp::Relation::Less => asp::Relation::Greater,
                                    asp::Relation::LessEqual => asp::Relation::GreaterEqual,
                                    asp::Relation::Greater => asp::Relation::Less,
                                    asp::Relation::GreaterEqual => asp::Relation::LessEqual,
                                    x => x,
                                },
                                &c.lhs,
                            )
                        } else {
                            continue;
                        };
                        let Ok(ovs) = self.vals(other, th) else { continue };
                        // "some pair in the relation": the weakest bound over all values
                        let ints: Vec<i128> = ovs.iter().filter_map(|x| if let Value::Int(i) = x { Some(*i) } else { None }).collect();
                        if ints.len() != ovs.len() || ints.is_empty() {
                            continue;
                        }
                        match rel {
                            asp::Relation::GreaterEqual => {
                                let b = *ints.iter().min().unwrap();
                                lo = Some(lo.map_or(b, |l: i128| l.max(b)))
                            }
                            asp::Relation::Greater => {
                                let b = *ints.iter().min().unwrap() + 1;
                                lo = Some(lo.map_or(b, |l: i128| l.max(b)))
                            }
                            asp::Relation::LessEqual => {
                                let b = *ints.iter().max().unwrap();
                                hi = Some(hi.map_or(b, |h: i128| h.min(b)))
                            }
                            asp::Relation::Less => {
                                let b = *ints.iter().max().unwrap() - 1;
                                hi = Some(hi.map_or(b, |h: i128| h.min(b)))
                            }
                            _ => {}
                        }
                    }
                }
            }
        }
        if let (Some(l), Some(h)) = (lo, hi) {
            if h < l {
                consider(Some(vec![]));
            } else if h - l < RANGE_LIMIT {
                consider(Some((l..=h).map(Value::Int).collect()));
            }
        }
        best
    }

    /// prune: some body element whose variables are all bound is false at `t`-level reading
    fn body_refuted(&self, body: &asp::Body, pos: &Interp, t: &Interp, th: &Theta) -> bool {
        for f in &body.formulas {
            let vars = match f {
                asp::AtomicFormula::Literal(l) => l.variables(),
                asp::AtomicFormula::Comparison(c) => c.variables(),
            };
            if vars.iter().all(|v| th.contains_key(&v.0)) {
                if let Ok(false) = self.body_elem_holds(f, pos, t, th) {
                    return true;
                }
            }
        }
        false
    }

    /// Substitutions for `vars` under which `body` can hold when positive literals are read in
    /// `pos` and negations in `t`. Returns (substitutions, complete?).
    pub fn enumerate(
        &self,
        body: &asp::Body,
        vars: &[String],
        pos: &Interp,
        t: &Interp,
        fallback: &[Value],
    ) -> (Vec<Theta>, bool) {
        let mut out = Vec::new();
        let mut th = Theta::new();
        let complete = self.enum_rec(body, vars, pos, t, fallback, &mut th, &mut out);
        (out, complete)
    }

    fn enum_rec(
        &self,
        body: &asp::Body,
        vars: &[String],
        pos: &Interp,
        t: &Interp,
        fallback: &[Value],
        th: &mut Theta,
        out: &mut Vec<Theta>,
    ) -> bool {
        if out.len() > THETA_LIMIT {
            return false;
        }
        if self.body_refuted(body, pos, t, th) {
            return true;
        }
        let unbound_vars: Vec<&String> = vars.iter().filter(|v| !th.contains_key(*v)).collect();
        if unbound_vars.is_empty() {
            out.push(th.clone());
            return true;
        }
        let mut best: Option<(String, Vec<Value>)> = None;
        for v in &unbound_vars {
            if let Some(c) = self.cands_for(body, pos, t, v, th) {
                if best.as_ref().map(|(_, b)| c.len() < b.len()).unwrap_or(true) {
                    best = Some(((*v).clone(), c));
                }
            }
        }
        if let Some((v, cands)) = best {
            let mut complete = true;
            for c in cands {
                th.insert(v.clone(), c);
                complete &= self.enum_rec(body, vars, pos, t, fallback, th, out);
                th.remove(&v);
            }
            return complete;
        }
        // uncovered: sample the first unbound variable from the fallback candidates
        self.stats.uncovered_searches.set(self.stats.uncovered_searches.get() + 1);
        let v = unbound_vars[0].clone();
        let k = unbound_vars.len();
        // keep the product bounded: fewer candidates per variable when several are uncovered
        let per = match k {
            1 => fallback.len(),
            2 => fallback.len().min(24),
            _ => fallback.len().min(8),
        };
        let stride = (fallback.len() / per.max(1)).max(1);
        for c in fallback.iter().step_by(stride).take(per) {
            th.insert(v.clone(), c.clone());
            self.enum_rec(body, vars, pos, t, fallback, th, out);
            th.remove(&v);
        }
        false
    }

    /// HT satisfaction of all ground instances of a rule (three-valued, F is always exact)
    pub fn ht_sat_rule(&self, r: &asp::Rule, h: &Interp, t: &Interp, fallback: &[Value]) -> Tv {
        let vars: Vec<String> = r.variables().into_iter().map(|v| v.0).collect();
        // body at h implies body at t (positive atoms: H subset T is the caller's obligation; if
        // it does not hold we enumerate against both)
        let (mut thetas, mut complete) = self.enumerate(&r.body, &vars, t, t, fallback);
        if !subset(h, t) {
            let (t2, c2) = self.enumerate(&r.body, &vars, h, t, fallback);
            thetas.extend(t2);
            complete &= c2;
        }
        let mut unknown = false;
        for th in &thetas {
            self.stats.instances.set(self.stats.instances.get() + 1);
            for wi in [h, t] {
                match self.body_holds(&r.body, wi, t, th) {
                    Err(_) => unknown = true,
                    Ok(false) => {}
                    Ok(true) => match self.head_holds(&r.head, wi, t, th) {
                        Err(_) => unknown = true,
                        Ok(true) => {}
                        Ok(false) => return Tv::F,
                    },
                }
            }
        }
        if unknown || !complete { Tv::U } else { Tv::T }
    }

    pub fn ht_sat_program(&self, p: &asp::Program, h: &Interp, t: &Interp, fallback: &[Value]) -> Tv {
        crate::kit::eval::all3(p.rules.iter().map(|r| self.ht_sat_rule(r, h, t, fallback)))
    }

    /// Least model of the reduct of `prog` w.r.t. the finite interpretation `t`, starting from
    /// `facts`. Returns (set, exact?): the set is always a subset of the true least model.
    pub fn reduct_lm(&self, prog: &asp::Program, t: &Interp, facts: &AtomSet, fallback: &[Value]) -> (AtomSet, bool) {
        let mut exact = true;
        let mut per_rule: Vec<(usize, Vec<Theta>)> = Vec::new();
        for (i, r) in prog.rules.iter().enumerate() {
            if matches!(r.head, asp::Head::Falsity) {
                continue;
            }
            let vars: Vec<String> = r.variables().into_iter().map(|v| v.0).collect();
            let (thetas, complete) = self.enumerate(&r.body, &vars, t, t, fallback);
            exact &= complete;
            per_rule.push((i, thetas));
        }
        let mut m: AtomSet = facts.clone();
        loop {
            let mi = interp_of(&m);
            let mut added = false;
            for (i, thetas) in &per_rule {
                let r = &prog.rules[*i];
                let (asp::Head::Basic(a) | asp::Head::Choice(a)) = &r.head else { continue };
                let is_choice = matches!(r.head, asp::Head::Choice(_));
                for th in thetas {
                    match self.body_holds(&r.body, &mi, t, th) {
                        Err(_) => exact = false,
                        Ok(false) => {}
                        Ok(true) => match self.tuples(&a.terms, th) {
                            Err(_) => exact = false,
                            Ok(tps) => {
                                for tp in tps {
                                    if is_choice && !t.holds(&a.predicate_symbol, &tp) {
                                        continue;
                                    }
                                    if m.insert((a.predicate_symbol.clone(), tp)) {
                                        added = true;
                                    }
                                }
                            }
                        },
                    }
                }
            }
            if !added {
                return (m, exact);
            }
            if m.len() > 2000 {
                return (m, false);
            }
        }
    }

    /// Is the finite interpretation `t` a stable model of `prog` together with `facts`?
    pub fn is_stable(&self, prog: &asp::Program, t: &Interp, facts: &AtomSet, fallback: &[Value]) -> Tv {
        let ta = atoms_of(t);
        if !facts.is_subset(&ta) {
            return Tv::F;
        }
        let sat = self.ht_sat_program(prog, t, t, fallback);
        if sat == Tv::F {
            return Tv::F;
        }
        let (m, exact) = self.reduct_lm(prog, t, facts, fallback);
        if m == ta {
            // computed set is a subset of the true least model, which is a subset of t when t
            // is a model; equality is therefore exact whenever sat is definite
            return sat;
        }
        if !m.is_subset(&ta) {
            // something outside t is derivable: t is not closed under the reduct
            return Tv::F;
        }
        if exact && sat == Tv::T { Tv::F } else { Tv::U }
    }

    /// Upper envelope of derivable atoms: least model with negative literals deleted and all
    /// choices taken, starting from `facts`. None if it does not converge within the cap.
    pub fn envelope(&self, prog: &asp::Program, facts: &AtomSet, fallback: &[Value], cap: usize) -> Option<AtomSet> {
        let mut m = facts.clone();
        let all_true = Interp::default();
        for _ in 0..64 {
            let mi = interp_of(&m);
            let mut added = false;
            for r in &prog.rules {
                let (asp::Head::Basic(a) | asp::Head::Choice(a)) = &r.head else { continue };
                // positive part of the body only
                let pos_body = asp::Body {
                    formulas: r
                        .body
                        .formulas
                        .iter()
                        .filter(|f| match f {
                            asp::AtomicFormula::Literal(l) => l.sign == asp::Sign::NoSign,
                            asp::AtomicFormula::Comparison(_) => true,
                        })
                        .cloned()
                        .collect(),
                };
                let vars: Vec<String> = r.variables().into_iter().map(|v| v.0).collect();
                let (thetas, complete) = self.enumerate(&pos_body, &vars, &mi, &all_true, fallback);
                if !complete {
                    return None;
                }
                for th in &thetas {
                    if let Ok(true) = self.body_holds(&pos_body, &mi, &mi, th) {
                        for tp in self.tuples(&a.terms, th).ok()? {
                            if m.insert((a.predicate_symbol.clone(), tp)) {
                                added = true;
                            }
                        }
                    }
                }
                if m.len() > cap {
                    return None;
                }
            }
            if !added {
                return Some(m);
            }
        }
        None
    }

    /// All stable models of `prog` + `facts` (tiny programs only). None: envelope too large or
    /// some candidate undecided.
    pub fn stable_models(&self, prog: &asp::Program, facts: &AtomSet, fallback: &[Value], max_free: usize) -> Option<Vec<AtomSet>> {
        let env = self.envelope(prog, facts, fallback, 64)?;
        let free: Vec<(String, Vec<Value>)> = env.difference(facts).cloned().collect();
        if free.len() > max_free {
            return None;
        }
        let mut out = Vec::new();
        for mask in 0u64..(1u64 << free.len()) {
            let mut cand = facts.clone();
            for (i, a) in free.iter().enumerate() {
                if mask >> i & 1 == 1 {
                    cand.insert(a.clone());
                }
            }
            let mut ti = interp_of(&cand);
            // make every program predicate present (empty extent) so that defaults are explicit
            for p in prog.predicates() {
                ti.preds.entry((p.symbol, p.arity)).or_default();
            }
            match self.is_stable(prog, &ti, facts, fallback) {
                Tv::T => out.push(cand),
                Tv::F => {}
                Tv::U => return None,
            }
        }
        Some(out)
    }
}

pub fn subset(h: &Interp, t: &Interp) -> bool {
    for ((p, n), e) in &h.preds {
        let te = t.preds.get(&(p.clone(), *n));
        match (e.default, te.map(|x| x.default).unwrap_or(false)) {
            (false, false) => {
                for tp in &e.exc {
                    if !te.map(|x| x.exc.contains(tp)).unwrap_or(false) {
                        return false;
                    }
                }
            }
            (false, true) => {
                // h finite, t co-finite: every h atom must not be an exception of t
                for tp in &e.exc {
                    if te.unwrap().exc.contains(tp) {
                        return false;
                    }
                }
            }
            (true, false) => return false,
            (true, true) => {
                // co-finite in both: exceptions of t must be exceptions of h
                for tp in &te.unwrap().exc {
                    if !e.exc.contains(tp) {
                        return false;
                    }
                }
            }
        }
    }
    true
}

pub fn atoms_of(i: &Interp) -> AtomSet {
    let mut s = AtomSet::new();
    for ((p, _), e) in &i.preds {
        debug_assert!(!e.default);
        for t in &e.exc {
            s.insert((p.clone(), t.clone()));
        }
    }
    s
}

pub fn interp_of(a: &AtomSet) -> Interp {
    let mut i = Interp::default();
    for (p, t) in a {
        i.preds.entry((p.clone(), t.len())).or_default().exc.insert(t.clone());
    }
    i
}

/// fallback candidates for uncovered variables: active domain of the interpretations, the
/// numerals/symbols of the program, each integer +-2, 0, +-1, #inf, #sup, two fresh symbols,
/// two far-away integers
pub fn fallback_values(prog: &asp::Program, interps: &[&Interp], extra: &[Value]) -> Vec<Value> {
    let mut vals: BTreeSet<Value> = BTreeSet::new();
    for i in interps {
        for e in i.preds.values() {
            for tp in &e.exc {
                for v in tp {
                    vals.insert(v.clone());
                }
            }
        }
    }
    for v in extra {
        vals.insert(v.clone());
    }
    fn term(t: &asp::Term, out: &mut BTreeSet<Value>) {
        match t {
            asp::Term::PrecomputedTerm(asp::PrecomputedTerm::Numeral(n)) => {
                out.insert(Value::Int(*n as i128));
            }
            asp::Term::PrecomputedTerm(asp::PrecomputedTerm::Symbol(s)) => {
                out.insert(Value::Sym(s.clone()));
            }
            asp::Term::UnaryOperation { arg, .. } => term(arg, out),
            asp::Term::BinaryOperation { lhs, rhs, .. } => {
                term(lhs, out);
                term(rhs, out)
            }
            _ => {}
        }
    }
    for r in &prog.rules {
        for t in r.terms() {
            term(&t, &mut vals);
        }
    }
    let mut ints: Vec<i128> = vals.iter().filter_map(|v| if let Value::Int(i) = v { Some(*i) } else { None }).collect();
    ints.extend([0, 1, -1]);
    let mx = ints.iter().map(|i| i.abs()).max().unwrap_or(0);
    let mut all = vals.clone();
    for i in &ints {
        for d in -2..=2 {
            all.insert(Value::Int(i + d));
        }
    }
    all.insert(Value::Int(mx + 100));
    all.insert(Value::Int(-mx - 100));
    all.insert(Value::Inf);
    all.insert(Value::Sup);
    all.insert(Value::Sym("zz_fresh1".into()));
    all.insert(Value::Sym("zz_fresh2".into()));
    all.into_iter().collect()
}

impl<'a> Ref<'a> {
    /// Extents of the private predicates of `prog` as determined by its rules from the public
    /// part `base` (stratum-wise; requires absence of private recursion). None: undecided.
    pub fn determine_privates(&self, prog: &asp::Program, privates: &[(String, usize)], base: &Interp, fallback: &[Value]) -> Option<AtomSet> {
        let is_priv = |p: &asp::Predicate| privates.iter().any(|(n, a)| *n == p.symbol && *a == p.arity);
        // dependency order among privates
        let mut remaining: Vec<(String, usize)> = privates.to_vec();
        let mut order: Vec<(String, usize)> = Vec::new();
        while !remaining.is_empty() {
            let before = remaining.len();
            let mut next = Vec::new();
            for p in remaining.iter() {
                let depends_on_remaining = prog.rules.iter().any(|r| match r.head.predicate() {
                    Some(h) if h.symbol == p.0 && h.arity == p.1 => r.body.predicates().iter().any(|q| is_priv(q) && remaining.iter().any(|(n, a)| *n == q.symbol && *a == q.arity) && !(q.symbol == p.0 && q.arity == p.1 && false)),
                    _ => false,
                });
                if depends_on_remaining {
                    next.push(p.clone());
                } else {
                    order.push(p.clone());
                }
            }
            if next.len() == before {
                return None; // cycle
            }
            remaining = next;
        }
        let mut cur = base.clone();
        for (n, a) in privates {
            cur.preds.insert((n.clone(), *a), Ext::default());
        }
        let mut out = AtomSet::new();
        for (pn, pa) in &order {
            let mut ext: BTreeSet<Vec<Value>> = BTreeSet::new();
            for r in &prog.rules {
                let asp::Head::Basic(h) = &r.head else {
                    if let asp::Head::Choice(h) = &r.head {
                        if h.predicate_symbol == *pn && h.terms.len() == *pa {
                            return None;
                        }
                    }
                    continue;
                };
                if h.predicate_symbol != *pn || h.terms.len() != *pa {
                    continue;
                }
                let vars: Vec<String> = r.variables().into_iter().map(|v| v.0).collect();
                let (thetas, complete) = self.enumerate(&r.body, &vars, &cur, &cur, fallback);
                if !complete {
                    return None;
                }
                for th in &thetas {
                    match self.body_holds(&r.body, &cur, &cur, th) {
                        Err(_) => return None,
                        Ok(false) => {}
                        Ok(true) => {
                            for tp in self.tuples(&h.terms, th).ok()? {
                                ext.insert(tp);
                            }
                        }
                    }
                }
                if ext.len() > 500 {
                    return None;
                }
            }
            for tp in &ext {
                out.insert((pn.clone(), tp.clone()));
            }
            cur.preds.insert((pn.clone(), *pa), Ext { exc: ext, default: false });
        }
        Some(out)
    }
}
