use std::collections::{BTreeMap, BTreeSet};

/// The standard domain: #inf < integers < symbolic constants (lexicographic) < #sup.
#[derive(Clone, Debug, PartialEq, Eq, Hash)]
pub enum Value {
    Inf,
    Int(i128),
    Sym(String),
    Sup,
}

impl Value {
    fn rank(&self) -> u8 {
        match self {
            Value::Inf => 0,
            Value::Int(_) => 1,
            Value::Sym(_) => 2,
            Value::Sup => 3,
        }
    }
    pub fn show(&self) -> String {
        match self {
            Value::Inf => "#inf".into(),
            Value::Sup => "#sup".into(),
            Value::Int(i) => i.to_string(),
            Value::Sym(s) => s.clone(),
        }
    }
}

impl PartialOrd for Value {
    fn partial_cmp(&self, o: &Self) -> Option<std::cmp::Ordering> {
        Some(self.cmp(o))
    }
}
impl Ord for Value {
    fn cmp(&self, o: &Self) -> std::cmp::Ordering {
        match (self, o) {
            (Value::Int(a), Value::Int(b)) => a.cmp(b),
            (Value::Sym(a), Value::Sym(b)) => a.cmp(b),
            _ => self.rank().cmp(&o.rank()),
        }
    }
}

#[derive(Clone, Debug, Default)]
pub struct Ext {
    pub exc: BTreeSet<Vec<Value>>,
    pub default: bool,
}
impl Ext {
    pub fn holds(&self, t: &[Value]) -> bool {
        self.default ^ self.exc.contains(t)
    }
}

#[derive(Clone, Debug, Default)]
pub struct Interp {
    pub preds: BTreeMap<(String, usize), Ext>,
}
impl Interp {
    pub fn holds(&self, p: &str, t: &[Value]) -> bool {
        match self.preds.get(&(p.to_string(), t.len())) {
            Some(e) => e.holds(t),
            None => false,
        }
    }
    pub fn ext(&self, p: &str, n: usize) -> Option<&Ext> {
        self.preds.get(&(p.to_string(), n))
    }
    pub fn show(&self) -> String {
        let mut v: Vec<String> = Vec::new();
        for ((p, _), e) in &self.preds {
            for t in &e.exc {
                let a: Vec<String> = t.iter().map(|x| x.show()).collect();
                v.push(format!("{}({})", p, a.join(",")));
            }
        }
        v.sort();
        v.join(" ")
    }
}
