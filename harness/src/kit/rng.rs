//! splitmix64; every random choice of every monitor derives from (VERIF_SEED, property, case index).
#[derive(Clone)]
pub struct Rng(u64);
impl Rng {
    pub fn new(seed: u64) -> Self {
        Rng(seed.wrapping_mul(0x9E3779B97F4A7C15) ^ 0xD1B54A32D192ED03)
    }
    /// independent stream for (seed, stream id, case index)
    pub fn for_case(seed: u64, stream: u64, idx: u64) -> Self {
        let mut r = Rng::new(seed ^ stream.rotate_left(17));
        let a = r.next();
        let mut r2 = Rng::new(a ^ idx.wrapping_mul(0xA24BAED4963EE407));
        r2.next();
        r2
    }
    pub fn next(&mut self) -> u64 {
        self.0 = self.0.wrapping_add(0x9E3779B97F4A7C15);
        let mut z = self.0;
        z = (z ^ (z >> 30)).wrapping_mul(0xBF58476D1CE4E5B9);
        z = (z ^ (z >> 27)).wrapping_mul(0x94D049BB133111EB);
        z ^ (z >> 31)
    }
    pub fn below(&mut self, n: u64) -> u64 {
        if n == 0 { 0 } else { self.next() % n }
    }
    pub fn upto(&mut self, n: usize) -> usize {
        self.below(n as u64) as usize
    }
    /// inclusive range
    pub fn range(&mut self, lo: i64, hi: i64) -> i64 {
        lo + self.below((hi - lo + 1) as u64) as i64
    }
    /// true with probability num/den
    pub fn chance(&mut self, num: u64, den: u64) -> bool {
        self.below(den) < num
    }
    pub fn pick<'a, T>(&mut self, v: &'a [T]) -> &'a T {
        &v[self.below(v.len() as u64) as usize]
    }
    pub fn shuffle<T>(&mut self, v: &mut [T]) {
        for i in (1..v.len()).rev() {
            let j = self.below(i as u64 + 1) as usize;
            v.swap(i, j);
        }
    }
}

pub fn fnv(s: &str) -> u64 {
    let mut h: u64 = 0xcbf29ce484222325;
    for b in s.as_bytes() {
        h ^= *b as u64;
        h = h.wrapping_mul(0x100000001b3);
    }
    h
}
