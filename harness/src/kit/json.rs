//! Minimal JSON value, writer and parser (no third-party crates are available offline).
use std::collections::BTreeMap;

#[derive(Clone, Debug, PartialEq)]
pub enum J {
    Null,
    Bool(bool),
    Int(i64),
    Num(f64),
    Str(String),
    Arr(Vec<J>),
    Obj(BTreeMap<String, J>),
}

impl J {
    pub fn obj() -> J {
        J::Obj(BTreeMap::new())
    }
    pub fn s<S: Into<String>>(s: S) -> J {
        J::Str(s.into())
    }
    pub fn set<S: Into<String>>(mut self, k: S, v: J) -> J {
        if let J::Obj(m) = &mut self {
            m.insert(k.into(), v);
        }
        self
    }
    pub fn put<S: Into<String>>(&mut self, k: S, v: J) {
        if let J::Obj(m) = self {
            m.insert(k.into(), v);
        }
    }
    pub fn get(&self, k: &str) -> Option<&J> {
        match self {
            J::Obj(m) => m.get(k),
            _ => None,
        }
    }
    pub fn str(&self, k: &str) -> Option<&str> {
        match self.get(k) {
            Some(J::Str(s)) => Some(s),
            _ => None,
        }
    }
    pub fn int(&self, k: &str) -> Option<i64> {
        match self.get(k) {
            Some(J::Int(i)) => Some(*i),
            _ => None,
        }
    }
    pub fn boolean(&self, k: &str) -> Option<bool> {
        match self.get(k) {
            Some(J::Bool(b)) => Some(*b),
            _ => None,
        }
    }
    pub fn arr(&self, k: &str) -> &[J] {
        match self.get(k) {
            Some(J::Arr(a)) => a,
            _ => &[],
        }
    }
    pub fn as_str(&self) -> Option<&str> {
        match self {
            J::Str(s) => Some(s),
            _ => None,
        }
    }
    pub fn strs(v: &[String]) -> J {
        J::Arr(v.iter().map(|s| J::Str(s.clone())).collect())
    }

    fn esc(s: &str, out: &mut String) {
        out.push('"');
        for c in s.chars() {
            match c {
                '"' => out.push_str("\\\""),
                '\\' => out.push_str("\\\\"),
                '\n' => out.push_str("\\n"),
                '\r' => out.push_str("\\r"),
                '\t' => out.push_str("\\t"),
                c if (c as u32) < 0x20 => out.push_str(&format!("\\u{:04x}", c as u32)),
                c => out.push(c),
            }
        }
        out.push('"');
    }

    fn write(&self, out: &mut String, ind: usize, pretty: bool) {
        let nl = |out: &mut String, n: usize| {
            if pretty {
                out.push('\n');
                for _ in 0..n {
                    out.push(' ');
                }
            }
        };
        match self {
            J::Null => out.push_str("null"),
            J::Bool(b) => out.push_str(if *b { "true" } else { "false" }),
            J::Int(i) => out.push_str(&i.to_string()),
            J::Num(f) => {
                if f.is_finite() {
                    out.push_str(&format!("{:.3}", f))
                } else {
                    out.push_str("0")
                }
            }
            J::Str(s) => Self::esc(s, out),
            J::Arr(a) => {
                if a.is_empty() {
                    out.push_str("[]");
                    return;
                }
                out.push('[');
                for (i, x) in a.iter().enumerate() {
                    if i > 0 {
                        out.push(',');
                    }
                    nl(out, ind + 1);
                    x.write(out, ind + 1, pretty);
                }
                nl(out, ind);
                out.push(']');
            }
            J::Obj(m) => {
                if m.is_empty() {
                    out.push_str("{}");
                    return;
                }
                out.push('{');
                for (i, (k, v)) in m.iter().enumerate() {
                    if i > 0 {
                        out.push(',');
                    }
                    nl(out, ind + 1);
                    Self::esc(k, out);
                    out.push(':');
                    if pretty {
                        out.push(' ');
                    }
                    v.write(out, ind + 1, pretty);
                }
                nl(out, ind);
                out.push('}');
            }
        }
    }

    pub fn pretty(&self) -> String {
        let mut s = String::new();
        self.write(&mut s, 0, true);
        s.push('\n');
        s
    }
    pub fn compact(&self) -> String {
        let mut s = String::new();
        self.write(&mut s, 0, false);
        s
    }

    pub fn parse(text: &str) -> Result<J, String> {
        let b: Vec<char> = text.chars().collect();
        let mut p = P { b: &b, i: 0 };
        p.ws();
        let v = p.val()?;
        p.ws();
        if p.i != b.len() {
            return Err(format!("trailing characters at {}", p.i));
        }
        Ok(v)
    }
}

struct P<'a> {
    b: &'a [char],
    i: usize,
}
impl<'a> P<'a> {
    fn ws(&mut self) {
        while self.i < self.b.len() && self.b[self.i].is_whitespace() {
            self.i += 1;
        }
    }
    fn peek(&self) -> Option<char> {
        self.b.get(self.i).cloned()
    }
    fn lit(&mut self, s: &str, v: J) -> Result<J, String> {
        for c in s.chars() {
            if self.peek() != Some(c) {
                return Err(format!("bad literal at {}", self.i));
            }
            self.i += 1;
        }
        Ok(v)
    }
    fn val(&mut self) -> Result<J, String> {
        match self.peek() {
            None => Err("unexpected end".into()),
            Some('n') => self.lit("null", J::Null),
            Some('t') => self.lit("true", J::Bool(true)),
            Some('f') => self.lit("false", J::Bool(false)),
            Some('"') => Ok(J::Str(self.string()?)),
            Some('[') => {
                self.i += 1;
                let mut a = Vec::new();
                self.ws();
                if self.peek() == Some(']') {
                    self.i += 1;
                    return Ok(J::Arr(a));
                }
                loop {
                    self.ws();
                    a.push(self.val()?);
                    self.ws();
                    match self.peek() {
                        Some(',') => self.i += 1,
                        Some(']') => {
                            self.i += 1;
                            return Ok(J::Arr(a));
                        }
                        _ => return Err(format!("expected , or ] at {}", self.i)),
                    }
                }
            }
            Some('{') => {
                self.i += 1;
                let mut m = BTreeMap::new();
                self.ws();
                if self.peek() == Some('}') {
                    self.i += 1;
                    return Ok(J::Obj(m));
                }
                loop {
                    self.ws();
                    let k = self.string()?;
                    self.ws();
                    if self.peek() != Some(':') {
                        return Err(format!("expected : at {}", self.i));
                    }
                    self.i += 1;
                    self.ws();
                    let v = self.val()?;
                    m.insert(k, v);
                    self.ws();
                    match self.peek() {
                        Some(',') => self.i += 1,
                        Some('}') => {
                            self.i += 1;
                            return Ok(J::Obj(m));
                        }
                        _ => return Err(format!("expected , or }} at {}", self.i)),
                    }
                }
            }
            Some(_) => {
                let st = self.i;
                while let Some(c) = self.peek() {
                    if c.is_ascii_digit() || "+-.eE".contains(c) {
                        self.i += 1
                    } else {
                        break;
                    }
                }
                let s: String = self.b[st..self.i].iter().collect();
                if let Ok(i) = s.parse::<i64>() {
                    Ok(J::Int(i))
                } else {
                    s.parse::<f64>().map(J::Num).map_err(|e| format!("{e} at {st}"))
                }
            }
        }
    }
    fn string(&mut self) -> Result<String, String> {
        if self.peek() != Some('"') {
            return Err(format!("expected string at {}", self.i));
        }
        self.i += 1;
        let mut s = String::new();
        loop {
            let c = self.peek().ok_or("unterminated string")?;
            self.i += 1;
            match c {
                '"' => return Ok(s),
                '\\' => {
                    let e = self.peek().ok_or("bad escape")?;
                    self.i += 1;
                    match e {
                        'n' => s.push('\n'),
                        't' => s.push('\t'),
                        'r' => s.push('\r'),
                        'b' => s.push('\u{8}'),
                        'f' => s.push('\u{c}'),
                        'u' => {
                            let h: String = self.b[self.i..self.i + 4].iter().collect();
                            self.i += 4;
                            let cp = u32::from_str_radix(&h, 16).map_err(|e| e.to_string())?;
                            s.push(char::from_u32(cp).unwrap_or('?'));
                        }
                        x => s.push(x),
                    }
                }
                c => s.push(c),
            }
        }
    }
}
