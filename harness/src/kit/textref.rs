//! Text-level reference for ground mini-gringo terms: an independent tokenizer and
//! precedence-climbing evaluator written from the language definition (`..` binds weakest, then
//! `+ -`, then `* / \`, unary minus strongest; binary operators associate to the left). It never
//! looks at anthem's syntax tree, so a parser that groups an expression differently from the
//! language definition is visible even when printer and parser agree with each other.
use crate::kit::aspref::DivConv;
use std::collections::BTreeSet;

#[derive(Clone, Debug, PartialEq)]
enum Tok {
    Num(i128),
    Op(char), // + - * / \ and '.' for the interval operator
    LPar,
    RPar,
}

fn lex(s: &str) -> Option<Vec<Tok>> {
    let b: Vec<char> = s.chars().collect();
    let mut i = 0;
    let mut out = Vec::new();
    while i < b.len() {
        let c = b[i];
        match c {
            ' ' | '\n' | '\t' => i += 1,
            '(' => {
                out.push(Tok::LPar);
                i += 1
            }
            ')' => {
                out.push(Tok::RPar);
                i += 1
            }
            '+' | '*' | '/' | '\\' => {
                out.push(Tok::Op(c));
                i += 1
            }
            '.' => {
                if b.get(i + 1) == Some(&'.') {
                    out.push(Tok::Op('.'));
                    i += 2
                } else {
                    return None;
                }
            }
            '-' => {
                out.push(Tok::Op('-'));
                i += 1
            }
            c if c.is_ascii_digit() => {
                let st = i;
                while i < b.len() && b[i].is_ascii_digit() {
                    i += 1
                }
                out.push(Tok::Num(b[st..i].iter().collect::<String>().parse().ok()?));
            }
            _ => return None,
        }
    }
    Some(out)
}

struct P<'a> {
    t: &'a [Tok],
    i: usize,
    div: DivConv,
}

type Vals = BTreeSet<i128>;

fn bin(op: char, a: &Vals, b: &Vals, div: DivConv) -> Option<Vals> {
    let mut out = Vals::new();
    for &x in a {
        for &y in b {
            match op {
                '+' => {
                    out.insert(x.checked_add(y)?);
                }
                '-' => {
                    out.insert(x.checked_sub(y)?);
                }
                '*' => {
                    out.insert(x.checked_mul(y)?);
                }
                '/' | '\\' => {
                    let qr = match div {
                        DivConv::Repo => {
                            if y > 0 { Some((x.div_euclid(y), x.rem_euclid(y))) } else { None }
                        }
                        DivConv::FloorAll => {
                            if y != 0 {
                                let mut q = x / y;
                                if x % y != 0 && ((x < 0) != (y < 0)) {
                                    q -= 1;
                                }
                                Some((q, x - y * q))
                            } else {
                                None
                            }
                        }
                        DivConv::Truncate => {
                            if y != 0 { Some((x / y, x % y)) } else { None }
                        }
                    };
                    if let Some((q, r)) = qr {
                        out.insert(if op == '/' { q } else { r });
                    }
                }
                '.' => {
                    if y - x > 2000 {
                        return None;
                    }
                    let mut k = x;
                    while k <= y {
                        out.insert(k);
                        k += 1;
                    }
                }
                _ => return None,
            }
            if out.len() > 4000 {
                return None;
            }
        }
    }
    Some(out)
}

impl<'a> P<'a> {
    fn peek(&self) -> Option<&Tok> {
        self.t.get(self.i)
    }
    // interval level
    fn level0(&mut self) -> Option<Vals> {
        let mut l = self.level1()?;
        while self.peek() == Some(&Tok::Op('.')) {
            self.i += 1;
            let r = self.level1()?;
            l = bin('.', &l, &r, self.div)?;
        }
        Some(l)
    }
    fn level1(&mut self) -> Option<Vals> {
        let mut l = self.level2()?;
        while let Some(Tok::Op(c)) = self.peek() {
            let c = *c;
            if c != '+' && c != '-' {
                break;
            }
            self.i += 1;
            let r = self.level2()?;
            l = bin(c, &l, &r, self.div)?;
        }
        Some(l)
    }
    fn level2(&mut self) -> Option<Vals> {
        let mut l = self.unary()?;
        while let Some(Tok::Op(c)) = self.peek() {
            let c = *c;
            if c != '*' && c != '/' && c != '\\' {
                break;
            }
            self.i += 1;
            let r = self.unary()?;
            l = bin(c, &l, &r, self.div)?;
        }
        Some(l)
    }
    fn unary(&mut self) -> Option<Vals> {
        match self.peek()? {
            Tok::Op('-') => {
                self.i += 1;
                let v = self.unary()?;
                let mut out = Vals::new();
                for x in v {
                    out.insert(x.checked_neg()?);
                }
                Some(out)
            }
            Tok::Num(n) => {
                let n = *n;
                self.i += 1;
                Some([n].into_iter().collect())
            }
            Tok::LPar => {
                self.i += 1;
                let v = self.level0()?;
                if self.peek() != Some(&Tok::RPar) {
                    return None;
                }
                self.i += 1;
                Some(v)
            }
            _ => None,
        }
    }
}

/// the set of values of a ground arithmetic term given as text; None: not in the fragment
/// (or too large)
pub fn values_of_text(s: &str, div: DivConv) -> Option<BTreeSet<i128>> {
    let toks = lex(s)?;
    let mut p = P { t: &toks, i: 0, div };
    let v = p.level0()?;
    if p.i != toks.len() {
        return None;
    }
    Some(v)
}
