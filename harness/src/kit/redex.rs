//! Redex templates: formulas built to trigger each rewrite of the simplification portfolios with
//! hostile fillers (shadowing binders, self-referential definitions, mixed sorts, duplicated
//! conjuncts), plus "realistic" formulas (outputs of tau*, completion, gamma).
use crate::kit::generate::{FolOpts, ProgOpts, gen_formula, gen_gterm, gen_int_term, gen_program};
use crate::kit::rng::Rng;
use anthem::syntax_tree::fol::sigma_0 as fol;

fn filler(r: &mut Rng, vars: &[(&str, &str)], depth: u32) -> String {
    let mut o = FolOpts::default();
    o.vars = vars.iter().map(|(a, b)| (a.to_string(), b.to_string())).collect();
    o.max_chain = 2;
    gen_formula(r, &o, depth)
}

fn term_over(r: &mut Rng, vars: &[(&str, &str)], int: bool) -> String {
    let mut o = FolOpts::default();
    o.vars = vars.iter().map(|(a, b)| (a.to_string(), b.to_string())).collect();
    if int { gen_int_term(r, &o, 2) } else { gen_gterm(r, &o) }
}

pub const TEMPLATE_COUNT: u64 = 16;

pub fn gen_redex(r: &mut Rng) -> (String, &'static str) {
    let vs: &[(&str, &str)] = &[("Z", ""), ("I", "$i"), ("X", ""), ("Y", ""), ("X", "$i"), ("K", "$i"), ("I1", "$i"), ("J", "$i"), ("S", "$s")];
    let eq = |r: &mut Rng, a: &str, b: &str| if r.chance(1, 2) { format!("{a} = {b}") } else { format!("{b} = {a}") };
    match r.below(TEMPLATE_COUNT) {
        0 => {
            // restrict_quantifier_domain, existential pattern
            let inner_more = ["", "", " J$i", " Z", " Z", " I1$i", " X"][r.upto(7)];
            let outer_more = ["", "", " X", " I$i", " K$i"][r.upto(5)];
            let e = eq(r, "I$i", "Z");
            let loc: &[(&str, &str)] = &[("Z", ""), ("I", "$i"), ("X", "")];
            let g = { let use_loc = r.chance(2, 3); filler(r, if use_loc { loc } else { vs }, 1) };
            // H often separates integers from non-integers through the outer variable
            let h = match r.below(6) {
                0 | 1 => format!("{}(Z)", ["p", "q"][r.upto(2)]),
                2 => format!("Z {} {}", ["=", ">", ">=", "!="][r.upto(4)], ["a", "#sup", "3", "b"][r.upto(4)]),
                3 => format!("not {}(Z)", ["p", "q"][r.upto(2)]),
                _ => { let use_loc = r.chance(2, 3); filler(r, if use_loc { loc } else { vs }, 1) }
            };
            // near misses: the rewrite is only valid for a conjunction under exists
            let conn = ["and", "and", "and", "and", "or", "->", "<->"][r.upto(7)];
            let q = if r.chance(1, 8) { "forall" } else { "exists" };
            let s = if r.chance(1, 2) {
                format!("{q} Z{outer_more} (exists I$i{inner_more} ({e} and {g}) {conn} {h})")
            } else {
                format!("{q} Z{outer_more} ({h} {conn} exists I$i{inner_more} ({g} and {e}))")
            };
            (s, "restrict-exists")
        }
        1 => {
            let inner_more = ["", " J$i", " Z", " Z", " K$i"][r.upto(5)];
            let e = eq(r, "I$i", "Z");
            let loc: &[(&str, &str)] = &[("Z", ""), ("I", "$i"), ("X", "")];
            let g = { let use_loc = r.chance(2, 3); filler(r, if use_loc { loc } else { vs }, 1) };
            let h = if r.chance(1, 2) { filler(r, &[("X", ""), ("I", "$i"), ("K", "$i")], 1) } else { filler(r, loc, 1) };
            // near misses: the rewrite is only valid for ->
            let conn = ["->", "->", "->", "<->", "<-", "or", "and"][r.upto(7)];
            let q = if r.chance(1, 6) { "exists" } else { "forall" };
            (format!("{q} Z X (exists I$i{inner_more} ({e} and {g}) {conn} {h})"), "restrict-forall")
        }
        2 => {
            // extend_quantifier_scope
            let q = ["exists", "forall"][r.upto(2)];
            let c = ["and", "or"][r.upto(2)];
            let v = ["X", "X$i", "Z", "X Y"][r.upto(4)];
            let loc: &[(&str, &str)] = &[("X", ""), ("X", "$i"), ("Z", ""), ("Y", "")];
            let f = filler(r, loc, 1);
            let mut g = filler(r, loc, 1);
            if r.chance(1, 3) {
                // the other operand mentions the variable free, but only below a binder of the
                // same name and another sort (which does not bind it)
                let both: &[(&str, &str)] = &[("X", ""), ("X", "$i")];
                let inner = filler(r, both, 1);
                let other = if v == "X$i" { "X" } else { "X$i" };
                let link = if r.chance(1, 2) { format!("X = X$i and ({inner})") } else { inner };
                g = match r.below(3) {
                    0 => format!("{} {other} ({link})", ["exists", "forall"][r.upto(2)]),
                    1 => format!("not exists {other} ({link})"),
                    _ => format!("p(1) or forall {other} ({link})"),
                };
            }
            let s = if r.chance(1, 2) { format!("({q} {v} ({f})) {c} ({g})") } else { format!("({g}) {c} ({q} {v} ({f}))") };
            let s = if r.chance(1, 4) { format!("forall X X$i ({s})") } else { s };
            (s, "extend-scope")
        }
        3 => {
            // simplify_transitive_equality
            let pairs = [("X", "Y"), ("X$i", "Y"), ("X", "X$i"), ("I$i", "K$i"), ("S$s", "X"), ("X$i", "I$i"), ("X$i", "S$s"), ("S$s", "I$i")];
            let (a, b) = pairs[r.upto(pairs.len())];
            let t = match r.below(5) {
                0 => a.to_string(),
                1 => b.to_string(),
                2 => format!("{} * {}", if a.ends_with("$i") { a } else { "I$i" }, if a.ends_with("$i") { a } else { "I$i" }),
                3 => ["Z", "#inf", "c$g", "W"][r.upto(4)].to_string(),
                _ => term_over(r, vs, a.ends_with("$i") && b.ends_with("$i")),
            };
            let e1 = eq(r, a, &t);
            let mut e2 = if r.chance(1, 4) { e1.clone() } else { eq(r, b, &t) };
            if r.chance(2, 5) {
                // one of the equalities is the head of a comparison chain: it is more than an
                // equality and must not be dropped as one
                e2 = format!("{b} = {t} {} {}", ["<", "!=", ">=", "<="][r.upto(4)], ["W", "K$i", "0", "Z"][r.upto(4)]);
            }
            let split = |v: &'static str| -> (&'static str, &'static str) { match v.find('$') { Some(i) => (&v[..i], &v[i..]), None => (v, "") } };
            let loc = [split(a), split(b)];
            let f = if r.chance(1, 3) { format!("p({a})") } else { filler(r, &loc, 1) };
            let binder = match r.below(4) {
                0 => a.to_string(),
                1 => b.to_string(),
                _ => format!("{a} {b}"),
            };
            let mut parts = vec![e1, e2, f];
            if r.chance(1, 3) {
                r.shuffle(&mut parts);
            }
            let s = if r.chance(1, 3) {
                format!("exists {binder} (({} and {}) and {})", parts[0], parts[1], parts[2])
            } else {
                format!("exists {binder} ({} and {} and {})", parts[0], parts[1], parts[2])
            };
            (s, "transitive-equality")
        }
        4 if r.chance(1, 4) => {
            // substitute_defined_variables with an inner quantifier that binds the variable
            // again: an equality about the inner variable says nothing about the outer one
            let (a, b) = [("I$i", "Z"), ("X", "Y"), ("I$i", "K$i"), ("X$i", "Z")][r.upto(4)];
            let c = if a.ends_with("$i") || b.ends_with("$i") { ["5", "1", "0"][r.upto(3)] } else { ["5", "a", "#sup"][r.upto(3)] };
            let q = ["exists", "forall"][r.upto(2)];
            let s = match r.below(4) {
                0 => format!("exists {a} {b} ({b} = {c} and q({a}) and {q} {a} ({a} = {b} and p({a})))"),
                1 => format!("exists {a} {b} (q({a}) and {q} {a} ({a} = {b} and p({a})) and {b} = {c})"),
                2 => format!("exists {a} (q({a}) and exists {a} ({a} = {c} and p({a})))"),
                _ => format!("exists {a} {b} ({b} = {c} and (q({a}) or {q} {a} ({a} = {b} -> p({a}))))"),
            };
            (s, "substitute-defined-shadowed")
        }
        4 => {
            // substitute_defined_variables
            let x = ["X", "X$i", "S$s", "Z"][r.upto(4)];
            let t = match r.below(5) {
                0 => format!("{x}"),
                1 if x.ends_with("$i") => format!("{x} + 1"),
                2 => "Y".to_string(),
                _ => term_over(r, vs, x.ends_with("$i")),
            };
            let e = eq(r, x, &t);
            let f = match r.below(3) {
                0 => format!("forall Y (p({x}) or q(Y))"),
                1 => format!("exists {x} p({x})"),
                _ => filler(r, &[("X", ""), ("X", "$i"), ("S", "$s"), ("Z", ""), ("Y", "")], 1),
            };
            let more = ["", " Y", " I$i"][r.upto(3)];
            let s = match r.below(3) {
                0 => format!("exists {x}{more} ({e} and {f})"),
                1 => format!("exists {x}{more} ({f} and {e})"),
                _ => format!("exists {x}{more} (1 < {e} and {f})"),
            };
            (s, "substitute-defined")
        }
        5 => {
            let t = term_over(r, vs, false);
            let rel = ["=", "!=", "<", "<=", ">", ">="][r.upto(6)];
            let s = match r.below(3) {
                0 => format!("{t} {rel} {t}"),
                1 => format!("{t} {rel} {t} {} {}", ["=", "<", "!="][r.upto(3)], term_over(r, vs, false)),
                _ => format!("{} = {} = {}", term_over(r, vs, false), t, t),
            };
            (s, "evaluate-comparisons")
        }
        6 => {
            let f = filler(r, vs, 1);
            let c = ["and", "or", "->", "<-", "<->"][r.upto(5)];
            let e = ["#true", "#false"][r.upto(2)];
            let s = if r.chance(1, 2) { format!("({f}) {c} {e}") } else { format!("{e} {c} ({f})") };
            (s, "identity-annihilation")
        }
        7 => {
            let f = filler(r, vs, 1);
            let c = ["and", "or", "->", "<-", "<->"][r.upto(5)];
            (format!("({f}) {c} ({f})"), "idempotence")
        }
        8 => {
            let q = ["exists", "forall"][r.upto(2)];
            let vars = ["X Y", "X X$i", "X X", "Y X$i I$i", "S$s X"][r.upto(5)];
            let f = filler(r, &[("X", ""), ("X", "$i")], 1);
            (format!("{q} {vars} ({f})"), "orphaned-variables")
        }
        9 => {
            let q1 = ["exists", "forall"][r.upto(2)];
            let q2 = if r.chance(3, 4) { q1 } else { ["exists", "forall"][r.upto(2)] };
            let v1 = ["X", "X Y", "X$i", "Z"][r.upto(4)];
            let v2 = ["X", "Y", "X$i", "Y X"][r.upto(4)];
            let f = filler(r, vs, 1);
            (format!("{q1} {v1} ({q2} {v2} ({f}))"), "nested-quantifiers")
        }
        10 => {
            let f = filler(r, vs, 1);
            let g = filler(r, vs, 1);
            let s = match r.below(3) {
                0 => format!("(({f}) -> ({g})) and (({g}) -> ({f}))"),
                1 => format!("(({f}) -> ({g})) and (({f}) <- ({g}))"),
                _ => format!("(({f}) <- ({g})) and (({g}) <- ({f}))"),
            };
            (s, "equivalence-definition")
        }
        11 => {
            let f = filler(r, vs, 1);
            let s = match r.below(3) {
                0 => format!("({f}) -> #false"),
                1 => format!("#false <- ({f})"),
                _ => format!("not not ({f})"),
            };
            (s, "negation-definition")
        }
        12 => {
            // nested combination: quantifier over a restrict redex under negation/implication
            let (a, _) = gen_redex(r);
            let (b, _) = gen_redex(r);
            let c = ["and", "or", "->", "<->"][r.upto(4)];
            (format!("({a}) {c} ({b})"), "combination")
        }
        13 => {
            let (a, _) = gen_redex(r);
            let q = ["exists", "forall", "not"][r.upto(3)];
            let v = if q == "not" { "" } else { ["X", "Z", "I$i", "X$i Y"][r.upto(4)] };
            (format!("{q} {v} ({a})"), "wrapped")
        }
        14 if r.chance(1, 2) => {
            // an implication between a formula and its own negation (or itself)
            let f = if r.chance(1, 2) { ["p(X)", "q(X)", "s", "p(1)"][r.upto(4)].to_string() } else { filler(r, vs, 1) };
            let s = match r.below(6) {
                0 => format!("not ({f}) -> ({f})"),
                1 => format!("({f}) -> not ({f})"),
                2 => format!("({f}) <- not ({f})"),
                3 => format!("not not ({f}) -> ({f})"),
                4 => format!("({f}) <-> not ({f})"),
                _ => format!("forall X (not ({f}) -> ({f}))"),
            };
            (s, "self-implication")
        }
        14 => {
            // the shapes val_t(Z) produces
            let s = match r.below(3) {
                0 => "exists Z (exists I$i J$i (Z = I$i + J$i and I$i = X and J$i = 1) and p(Z))".to_string(),
                1 => "forall V1 (exists I$i J$i (V1 = I$i * J$i and I$i = X and J$i = Y) and q(X) -> p(V1))".to_string(),
                _ => "exists Z Z1 (Z = X and Z1 = X and r(Z, Z1))".to_string(),
            };
            (s, "val-shapes")
        }
        _ => {
            let f = filler(r, vs, 2);
            (f, "random-small")
        }
    }
}

/// formulas that anthem itself produces: tau*, completion and gamma outputs of generated programs
pub fn gen_realistic(r: &mut Rng) -> Vec<(fol::Formula, &'static str)> {
    use anthem::translating::classical_reduction::{completion::Completion, gamma::Gamma};
    use anthem::translating::formula_representation::tau_star::TauStar;
    let mut o = ProgOpts::default();
    o.safe = r.chance(3, 4);
    o.max_rules = 3;
    let text = gen_program(r, &o);
    let Ok(prog) = text.parse::<anthem::syntax_tree::asp::mini_gringo::Program>() else { return vec![] };
    let Ok(tau) = crate::run::guarded(|| prog.clone().tau_star()) else { return vec![] };
    let mut out: Vec<(fol::Formula, &'static str)> = Vec::new();
    match r.below(3) {
        0 => out.extend(tau.formulas.iter().cloned().map(|f| (f, "tau-star"))),
        1 => {
            if let Ok(Some(c)) = crate::run::guarded(|| tau.clone().completion(indexmap::IndexSet::new())) {
                out.extend(c.formulas.into_iter().map(|f| (f, "completion")));
            }
        }
        _ => {
            if let Ok(g) = crate::run::guarded(|| tau.clone().gamma()) {
                out.extend(g.formulas.into_iter().map(|f| (f, "gamma")));
            }
        }
    }
    out
}
