//! Strict reader for the typed first-order TPTP (TFF) fragment anthem emits (DESIGN.md
//! Appendix C): lexer, parser following the TPTP BNF (homogeneous & / | chains, unitary operands
//! of the non-associative connectives), type checker, and conversion to the evaluator's
//! internal form with the preamble symbols interpreted natively.
use crate::kit::ir::{Conn, F, Op, Rel, Sort, Term};
use crate::kit::value::Value;
use std::collections::BTreeMap;

#[derive(Clone, Debug, PartialEq)]
pub enum Tok {
    LPar,
    RPar,
    LBr,
    RBr,
    Comma,
    Dot,
    Colon,
    Bang,
    Quest,
    Tilde,
    Amp,
    Bar,
    Imp,
    Rimp,
    Iff,
    Eq,
    Neq,
    Gt,
    Star,
    Lower(String),
    Upper(String),
    Dollar(String),
    Int(i128),
}

#[derive(Clone, Debug)]
pub struct TptpError {
    pub class: &'static str,
    pub msg: String,
}
fn err<T>(class: &'static str, msg: impl Into<String>) -> Result<T, TptpError> {
    Err(TptpError { class, msg: msg.into() })
}

pub fn lex(s: &str) -> Result<Vec<Tok>, TptpError> {
    let b: Vec<char> = s.chars().collect();
    let mut i = 0;
    let mut out = Vec::new();
    let word = |b: &[char], mut i: usize| {
        let st = i;
        while i < b.len() && (b[i].is_ascii_alphanumeric() || b[i] == '_') {
            i += 1;
        }
        (b[st..i].iter().collect::<String>(), i)
    };
    while i < b.len() {
        let c = b[i];
        match c {
            ' ' | '\n' | '\t' | '\r' => i += 1,
            '%' => {
                while i < b.len() && b[i] != '\n' {
                    i += 1
                }
            }
            '(' => {
                out.push(Tok::LPar);
                i += 1
            }
            ')' => {
                out.push(Tok::RPar);
                i += 1
            }
            '[' => {
                out.push(Tok::LBr);
                i += 1
            }
            ']' => {
                out.push(Tok::RBr);
                i += 1
            }
            ',' => {
                out.push(Tok::Comma);
                i += 1
            }
            '.' => {
                out.push(Tok::Dot);
                i += 1
            }
            ':' => {
                out.push(Tok::Colon);
                i += 1
            }
            '?' => {
                out.push(Tok::Quest);
                i += 1
            }
            '~' => {
                out.push(Tok::Tilde);
                i += 1
            }
            '&' => {
                out.push(Tok::Amp);
                i += 1
            }
            '|' => {
                out.push(Tok::Bar);
                i += 1
            }
            '*' => {
                out.push(Tok::Star);
                i += 1
            }
            '>' => {
                out.push(Tok::Gt);
                i += 1
            }
            '!' => {
                if b.get(i + 1) == Some(&'=') {
                    out.push(Tok::Neq);
                    i += 2
                } else {
                    out.push(Tok::Bang);
                    i += 1
                }
            }
            '=' => {
                if b.get(i + 1) == Some(&'>') {
                    out.push(Tok::Imp);
                    i += 2
                } else {
                    out.push(Tok::Eq);
                    i += 1
                }
            }
            '<' => {
                if b.get(i + 1) == Some(&'=') && b.get(i + 2) == Some(&'>') {
                    out.push(Tok::Iff);
                    i += 3
                } else if b.get(i + 1) == Some(&'=') {
                    out.push(Tok::Rimp);
                    i += 2
                } else {
                    return err("lex", format!("unexpected '<' at {i}"));
                }
            }
            '$' => {
                let (w, j) = word(&b, i + 1);
                if w.is_empty() {
                    return err("lex", format!("bare '$' at {i}"));
                }
                out.push(Tok::Dollar(w));
                i = j;
            }
            c if c.is_ascii_digit() => {
                let st = i;
                while i < b.len() && b[i].is_ascii_digit() {
                    i += 1
                }
                let t: String = b[st..i].iter().collect();
                if i < b.len() && (b[i].is_ascii_alphabetic() || b[i] == '_') {
                    return err("lex", format!("malformed number/identifier near `{t}{}`", b[i]));
                }
                match t.parse::<i128>() {
                    Ok(n) => out.push(Tok::Int(n)),
                    Err(_) => return err("lex", format!("integer out of range `{t}`")),
                }
            }
            c if c.is_ascii_lowercase() => {
                let (w, j) = word(&b, i);
                out.push(Tok::Lower(w));
                i = j;
            }
            c if c.is_ascii_uppercase() => {
                let (w, j) = word(&b, i);
                out.push(Tok::Upper(w));
                i = j;
            }
            c => {
                let (w, _) = word(&b, i);
                return err("lex", format!("illegal character `{c}` (identifier `{w}` is neither an upper word nor a lower word)"));
            }
        }
    }
    Ok(out)
}

#[derive(Clone, Debug, PartialEq, Eq, PartialOrd, Ord)]
pub enum Ty {
    Int,
    Named(String),
    Bool,
}

#[derive(Clone, Debug, PartialEq)]
pub enum TTerm {
    Var(String),
    Num(i128),
    App(String, Vec<TTerm>),
}

#[derive(Clone, Debug, PartialEq)]
pub enum TForm {
    True,
    False,
    Pred(String, Vec<TTerm>),
    Eq(TTerm, TTerm, bool),
    Not(Box<TForm>),
    Bin(Conn, Box<TForm>, Box<TForm>),
    Quant(bool, Vec<(String, Ty)>, Box<TForm>),
}

#[derive(Clone, Debug)]
pub enum Entry {
    TypeDecl { name: String, symbol: String },
    FuncDecl { name: String, symbol: String, args: Vec<Ty>, result: Ty },
    Formula { name: String, conjecture: bool, formula: TForm },
}

struct Parser {
    t: Vec<Tok>,
    i: usize,
}

impl Parser {
    fn peek(&self) -> Option<&Tok> {
        self.t.get(self.i)
    }
    fn next(&mut self) -> Option<Tok> {
        let x = self.t.get(self.i).cloned();
        self.i += 1;
        x
    }
    fn expect(&mut self, t: Tok) -> Result<(), TptpError> {
        match self.next() {
            Some(ref x) if *x == t => Ok(()),
            other => err("syntax", format!("expected {t:?}, found {other:?} at token {}", self.i - 1)),
        }
    }
    fn functor(&mut self) -> Result<String, TptpError> {
        match self.next() {
            Some(Tok::Lower(s)) => Ok(s),
            Some(Tok::Dollar(s)) => Ok(format!("${s}")),
            other => err("syntax", format!("expected a functor, found {other:?}")),
        }
    }
    fn atype(&mut self) -> Result<Ty, TptpError> {
        match self.next() {
            Some(Tok::Dollar(s)) if s == "int" => Ok(Ty::Int),
            Some(Tok::Dollar(s)) if s == "o" => Ok(Ty::Bool),
            Some(Tok::Lower(s)) => Ok(Ty::Named(s)),
            other => err("syntax", format!("expected a type, found {other:?}")),
        }
    }

    fn entry(&mut self) -> Result<Entry, TptpError> {
        match self.next() {
            Some(Tok::Lower(s)) if s == "tff" => {}
            other => return err("syntax", format!("expected `tff`, found {other:?}")),
        }
        self.expect(Tok::LPar)?;
        let name = match self.next() {
            Some(Tok::Lower(s)) => s,
            Some(Tok::Int(n)) => n.to_string(),
            other => return err("syntax", format!("bad formula name {other:?}")),
        };
        self.expect(Tok::Comma)?;
        let role = match self.next() {
            Some(Tok::Lower(s)) => s,
            other => return err("syntax", format!("bad role {other:?}")),
        };
        self.expect(Tok::Comma)?;
        let e = match role.as_str() {
            "type" => {
                // optional parentheses around the whole typing are not produced by anthem
                let symbol = self.functor()?;
                self.expect(Tok::Colon)?;
                match self.peek() {
                    Some(Tok::Dollar(s)) if s == "tType" => {
                        self.next();
                        Entry::TypeDecl { name, symbol }
                    }
                    Some(Tok::LPar) => {
                        self.next();
                        let mut args = vec![self.atype()?];
                        while self.peek() == Some(&Tok::Star) {
                            self.next();
                            args.push(self.atype()?);
                        }
                        self.expect(Tok::RPar)?;
                        self.expect(Tok::Gt)?;
                        let result = self.atype()?;
                        Entry::FuncDecl { name, symbol, args, result }
                    }
                    _ => {
                        let result = self.atype()?;
                        if self.peek() == Some(&Tok::Gt) {
                            self.next();
                            let r2 = self.atype()?;
                            Entry::FuncDecl { name, symbol, args: vec![result], result: r2 }
                        } else {
                            Entry::FuncDecl { name, symbol, args: vec![], result }
                        }
                    }
                }
            }
            "axiom" | "conjecture" => {
                let f = self.logic()?;
                Entry::Formula { name, conjecture: role == "conjecture", formula: f }
            }
            other => return err("syntax", format!("unsupported role `{other}`")),
        };
        self.expect(Tok::RPar)?;
        self.expect(Tok::Dot)?;
        Ok(e)
    }

    /// tff_logic_formula
    fn logic(&mut self) -> Result<TForm, TptpError> {
        let first = self.unit()?;
        match self.peek() {
            Some(Tok::Amp) | Some(Tok::Bar) => {
                let op = self.peek().cloned().unwrap();
                let conn = if op == Tok::Amp { Conn::And } else { Conn::Or };
                let mut acc = first;
                while self.peek() == Some(&op) {
                    self.next();
                    let rhs = self.unit()?;
                    acc = TForm::Bin(conn, Box::new(acc), Box::new(rhs));
                }
                match self.peek() {
                    Some(Tok::Amp) | Some(Tok::Bar) | Some(Tok::Imp) | Some(Tok::Rimp) | Some(Tok::Iff) => err(
                        "syntax",
                        format!("binary formula with ambiguous associativity: connective {:?} follows a {:?}-chain without parentheses", self.peek().unwrap(), op),
                    ),
                    _ => Ok(acc),
                }
            }
            Some(Tok::Imp) | Some(Tok::Rimp) | Some(Tok::Iff) => {
                let op = self.next().unwrap();
                let conn = match op {
                    Tok::Imp => Conn::Imp,
                    Tok::Rimp => Conn::Rimp,
                    _ => Conn::Iff,
                };
                let rhs = self.unit()?;
                match self.peek() {
                    Some(Tok::Amp) | Some(Tok::Bar) | Some(Tok::Imp) | Some(Tok::Rimp) | Some(Tok::Iff) => {
                        err("syntax", format!("binary formula with ambiguous associativity: {:?} after non-associative {:?}", self.peek().unwrap(), op))
                    }
                    _ => Ok(TForm::Bin(conn, Box::new(first), Box::new(rhs))),
                }
            }
            _ => Ok(first),
        }
    }

    /// tff_unit_formula: unitary formula or unary formula (prefix ~, infix !=)
    fn unit(&mut self) -> Result<TForm, TptpError> {
        match self.peek() {
            Some(Tok::Tilde) => {
                self.next();
                let inner = self.unit()?;
                Ok(TForm::Not(Box::new(inner)))
            }
            Some(Tok::Bang) | Some(Tok::Quest) => {
                let forall = self.next() == Some(Tok::Bang);
                self.expect(Tok::LBr)?;
                let mut vars = Vec::new();
                loop {
                    let v = match self.next() {
                        Some(Tok::Upper(s)) => s,
                        other => return err("syntax", format!("expected a variable (upper word) in quantifier, found {other:?}")),
                    };
                    self.expect(Tok::Colon)?;
                    let ty = self.atype()?;
                    vars.push((v, ty));
                    match self.next() {
                        Some(Tok::Comma) => {}
                        Some(Tok::RBr) => break,
                        other => return err("syntax", format!("expected , or ] in variable list, found {other:?}")),
                    }
                }
                self.expect(Tok::Colon)?;
                let body = self.unit()?;
                Ok(TForm::Quant(forall, vars, Box::new(body)))
            }
            Some(Tok::LPar) => {
                self.next();
                let f = self.logic()?;
                self.expect(Tok::RPar)?;
                Ok(f)
            }
            _ => self.atomic(),
        }
    }

    fn term(&mut self) -> Result<TTerm, TptpError> {
        match self.next() {
            Some(Tok::Upper(v)) => Ok(TTerm::Var(v)),
            Some(Tok::Int(n)) => Ok(TTerm::Num(n)),
            Some(Tok::Lower(f)) => self.app(f),
            Some(Tok::Dollar(f)) => self.app(format!("${f}")),
            other => err("syntax", format!("expected a term, found {other:?}")),
        }
    }
    fn app(&mut self, f: String) -> Result<TTerm, TptpError> {
        let mut args = Vec::new();
        if self.peek() == Some(&Tok::LPar) {
            self.next();
            loop {
                args.push(self.term()?);
                match self.next() {
                    Some(Tok::Comma) => {}
                    Some(Tok::RPar) => break,
                    other => return err("syntax", format!("expected , or ) in argument list, found {other:?}")),
                }
            }
        }
        Ok(TTerm::App(f, args))
    }

    fn atomic(&mut self) -> Result<TForm, TptpError> {
        if let Some(Tok::Dollar(s)) = self.peek() {
            if s == "true" {
                self.next();
                return Ok(TForm::True);
            }
            if s == "false" {
                self.next();
                return Ok(TForm::False);
            }
        }
        let lhs = self.term()?;
        match self.peek() {
            Some(Tok::Eq) => {
                self.next();
                let rhs = self.term()?;
                Ok(TForm::Eq(lhs, rhs, false))
            }
            Some(Tok::Neq) => {
                self.next();
                let rhs = self.term()?;
                Ok(TForm::Eq(lhs, rhs, true))
            }
            _ => match lhs {
                TTerm::App(f, args) => Ok(TForm::Pred(f, args)),
                other => err("syntax", format!("term {other:?} used as a formula")),
            },
        }
    }
}

pub fn parse(text: &str) -> Result<Vec<Entry>, TptpError> {
    let toks = lex(text)?;
    let mut p = Parser { t: toks, i: 0 };
    let mut out = Vec::new();
    while p.peek().is_some() {
        out.push(p.entry()?);
    }
    Ok(out)
}

// ------------------------------------------------------------------------------------------
// type checking

#[derive(Clone, Debug)]
pub struct Signature {
    pub types: Vec<String>,
    pub funcs: BTreeMap<String, (Vec<Ty>, Ty)>,
}

fn builtin(f: &str) -> Option<(Vec<Ty>, Ty)> {
    Some(match f {
        "$sum" | "$difference" | "$product" => (vec![Ty::Int, Ty::Int], Ty::Int),
        "$uminus" => (vec![Ty::Int], Ty::Int),
        "$less" | "$lesseq" | "$greater" | "$greatereq" => (vec![Ty::Int, Ty::Int], Ty::Bool),
        _ => return None,
    })
}

pub struct Checked {
    pub sig: Signature,
    pub formulas: Vec<(String, bool, TForm)>,
}

pub fn check(entries: &[Entry]) -> Result<Checked, TptpError> {
    let mut sig = Signature { types: vec![], funcs: BTreeMap::new() };
    let mut names: BTreeMap<String, ()> = BTreeMap::new();
    let mut formulas = Vec::new();
    for e in entries {
        let name = match e {
            Entry::TypeDecl { name, .. } | Entry::FuncDecl { name, .. } | Entry::Formula { name, .. } => name,
        };
        if names.insert(name.clone(), ()).is_some() {
            return err("duplicate-formula-name", format!("annotated formula name `{name}` is used twice"));
        }
        match e {
            Entry::TypeDecl { symbol, .. } => {
                if sig.types.contains(symbol) || sig.funcs.contains_key(symbol) {
                    return err("duplicate-declaration", format!("`{symbol}` is declared twice"));
                }
                sig.types.push(symbol.clone());
            }
            Entry::FuncDecl { symbol, args, result, .. } => {
                if symbol.starts_with('$') {
                    return err("duplicate-declaration", format!("declaration of the built-in `{symbol}`"));
                }
                for t in args.iter().chain(std::iter::once(result)) {
                    if let Ty::Named(n) = t {
                        if !sig.types.contains(n) {
                            return err("undeclared", format!("type `{n}` used in the declaration of `{symbol}` is not declared"));
                        }
                    }
                }
                if args.iter().any(|t| *t == Ty::Bool) {
                    return err("ill-typed", format!("`{symbol}` takes a $o argument"));
                }
                if let Some(old) = sig.funcs.get(symbol) {
                    return if *old == (args.clone(), result.clone()) {
                        err("duplicate-declaration", format!("`{symbol}` is declared twice"))
                    } else {
                        err("declared-at-two-types", format!("`{symbol}` is declared at two different types: {old:?} and {:?}", (args, result)))
                    };
                }
                if sig.types.contains(symbol) {
                    return err("declared-at-two-types", format!("`{symbol}` is both a type and a symbol"));
                }
                sig.funcs.insert(symbol.clone(), (args.clone(), result.clone()));
            }
            Entry::Formula { name, conjecture, formula } => {
                let mut scope: Vec<(String, Ty)> = Vec::new();
                check_form(formula, &sig, &mut scope).map_err(|e| TptpError { class: e.class, msg: format!("in `{name}`: {}", e.msg) })?;
                formulas.push((name.clone(), *conjecture, formula.clone()));
            }
        }
    }
    let n_conj = formulas.iter().filter(|f| f.1).count();
    if n_conj != 1 {
        return err("conjecture-count", format!("problem has {n_conj} conjectures"));
    }
    Ok(Checked { sig, formulas })
}

fn type_of(t: &TTerm, sig: &Signature, scope: &[(String, Ty)]) -> Result<Ty, TptpError> {
    match t {
        TTerm::Var(v) => match scope.iter().rev().find(|(n, _)| n == v) {
            Some((_, ty)) => Ok(ty.clone()),
            None => err("unbound-variable", format!("variable `{v}` is not bound by a quantifier")),
        },
        TTerm::Num(_) => Ok(Ty::Int),
        TTerm::App(f, args) => {
            let (at, rt) = match builtin(f).or_else(|| sig.funcs.get(f).cloned()) {
                Some(x) => x,
                None => return err("undeclared", format!("symbol `{f}` is used but not declared")),
            };
            if at.len() != args.len() {
                return err("ill-typed", format!("`{f}` is declared with {} arguments and used with {}", at.len(), args.len()));
            }
            for (a, want) in args.iter().zip(at.iter()) {
                let got = type_of(a, sig, scope)?;
                if got == Ty::Bool {
                    return err("ill-typed", format!("formula used as an argument of `{f}`"));
                }
                if got != *want {
                    return err("ill-typed", format!("argument of `{f}` has type {got:?}, expected {want:?}"));
                }
            }
            Ok(rt)
        }
    }
}

fn check_form(f: &TForm, sig: &Signature, scope: &mut Vec<(String, Ty)>) -> Result<(), TptpError> {
    match f {
        TForm::True | TForm::False => Ok(()),
        TForm::Pred(p, args) => {
            let t = type_of(&TTerm::App(p.clone(), args.clone()), sig, scope)?;
            if t != Ty::Bool {
                return err("ill-typed", format!("`{p}` is used as a formula but has result type {t:?}"));
            }
            Ok(())
        }
        TForm::Eq(a, b, _) => {
            let (ta, tb) = (type_of(a, sig, scope)?, type_of(b, sig, scope)?);
            if ta == Ty::Bool || tb == Ty::Bool {
                return err("ill-typed", "equation between formulas");
            }
            if ta != tb {
                return err("ill-typed", format!("equation between terms of types {ta:?} and {tb:?}"));
            }
            Ok(())
        }
        TForm::Not(a) => check_form(a, sig, scope),
        TForm::Bin(_, a, b) => {
            check_form(a, sig, scope)?;
            check_form(b, sig, scope)
        }
        TForm::Quant(_, vars, body) => {
            let n = scope.len();
            for (v, ty) in vars {
                if let Ty::Named(t) = ty {
                    if !sig.types.contains(t) {
                        return err("undeclared", format!("type `{t}` of variable `{v}` is not declared"));
                    }
                }
                if *ty == Ty::Bool {
                    return err("ill-typed", format!("variable `{v}` of type $o"));
                }
                scope.push((v.clone(), ty.clone()));
            }
            let r = check_form(body, sig, scope);
            scope.truncate(n);
            r
        }
    }
}

// ------------------------------------------------------------------------------------------
// conversion to the evaluator's internal form (standard interpretation of the preamble)

pub struct ToIr<'a> {
    pub sig: &'a Signature,
    pub sorts: Vec<Sort>,
    scope: Vec<(String, usize)>,
}

fn sort_of_ty(t: &Ty) -> Result<Sort, TptpError> {
    match t {
        Ty::Int => Ok(Sort::I),
        Ty::Named(n) if n == "general" => Ok(Sort::G),
        Ty::Named(n) if n == "symbol" => Ok(Sort::S),
        other => err("unsupported", format!("type {other:?} has no standard interpretation")),
    }
}

impl<'a> ToIr<'a> {
    pub fn new(sig: &'a Signature) -> Self {
        ToIr { sig, sorts: vec![], scope: vec![] }
    }

    fn term(&mut self, t: &TTerm) -> Result<Term, TptpError> {
        Ok(match t {
            TTerm::Var(v) => match self.scope.iter().rev().find(|(n, _)| n == v) {
                Some((_, id)) => Term::Var(*id),
                None => return err("unbound-variable", format!("variable `{v}`")),
            },
            TTerm::Num(n) => Term::Val(Value::Int(*n)),
            TTerm::App(f, args) => match (f.as_str(), args.len()) {
                ("f__integer__", 1) | ("f__symbolic__", 1) => self.term(&args[0])?,
                ("c__infimum__", 0) => Term::Val(Value::Inf),
                ("c__supremum__", 0) => Term::Val(Value::Sup),
                ("$sum", 2) => Term::Bin(Op::Add, Box::new(self.term(&args[0])?), Box::new(self.term(&args[1])?)),
                ("$difference", 2) => Term::Bin(Op::Sub, Box::new(self.term(&args[0])?), Box::new(self.term(&args[1])?)),
                ("$product", 2) => Term::Bin(Op::Mul, Box::new(self.term(&args[0])?), Box::new(self.term(&args[1])?)),
                ("$uminus", 1) => Term::Neg(Box::new(self.term(&args[0])?)),
                (name, 0) => match self.sig.funcs.get(name) {
                    Some((_, Ty::Named(t))) if t == "symbol" && !(name.ends_with("_s") && false) => {
                        // a declared constant of type symbol: either a symbolic constant denoting
                        // itself or a symbol-sorted placeholder (name_s); the caller tells them
                        // apart through the constants map (placeholders are looked up first)
                        Term::Const(name.to_string(), Sort::S)
                    }
                    Some((_, Ty::Int)) => Term::Const(name.to_string(), Sort::I),
                    Some((_, Ty::Named(t))) if t == "general" => Term::Const(name.to_string(), Sort::G),
                    _ => return err("unsupported", format!("constant `{name}` has no standard interpretation")),
                },
                (name, _) => return err("unsupported", format!("function `{name}` has no standard interpretation")),
            },
        })
    }

    pub fn form(&mut self, f: &TForm) -> Result<F, TptpError> {
        Ok(match f {
            TForm::True => F::True,
            TForm::False => F::False,
            TForm::Eq(a, b, neg) => F::Cmp(self.term(a)?, vec![(if *neg { Rel::Ne } else { Rel::Eq }, self.term(b)?)]),
            TForm::Pred(p, args) => {
                let rel = match p.as_str() {
                    "$less" | "p__less__" => Some(Rel::Lt),
                    "$lesseq" | "p__less_equal__" => Some(Rel::Le),
                    "$greater" | "p__greater__" => Some(Rel::Gt),
                    "$greatereq" | "p__greater_equal__" => Some(Rel::Ge),
                    _ => None,
                };
                if let (Some(r), 2) = (rel, args.len()) {
                    F::Cmp(self.term(&args[0])?, vec![(r, self.term(&args[1])?)])
                } else if (p == "p__is_integer__" || p == "p__is_symbolic__") && args.len() == 1 {
                    let id = self.sorts.len();
                    self.sorts.push(if p == "p__is_integer__" { Sort::I } else { Sort::S });
                    let t = self.term(&args[0])?;
                    F::Q(false, vec![id], Box::new(F::Cmp(t, vec![(Rel::Eq, Term::Var(id))])))
                } else {
                    let mut ts = Vec::new();
                    for a in args {
                        ts.push(self.term(a)?);
                    }
                    F::Atom(p.clone(), ts)
                }
            }
            TForm::Not(a) => F::Not(Box::new(self.form(a)?)),
            TForm::Bin(c, a, b) => F::Bin(*c, Box::new(self.form(a)?), Box::new(self.form(b)?)),
            TForm::Quant(forall, vars, body) => {
                let n = self.scope.len();
                let mut ids = Vec::new();
                for (v, ty) in vars {
                    let id = self.sorts.len();
                    self.sorts.push(sort_of_ty(ty)?);
                    self.scope.push((v.clone(), id));
                    ids.push(id);
                }
                let b = self.form(body)?;
                self.scope.truncate(n);
                F::Q(*forall, ids, Box::new(b))
            }
        })
    }
}

/// Reads a whole problem text strictly. Returns the checked problem or the first error.
pub fn read_problem(text: &str) -> Result<Checked, TptpError> {
    let entries = parse(text)?;
    check(&entries)
}

/// Values of the declared constants under the standard interpretation: symbolic constants denote
/// themselves, placeholder constants (printed name_i / name_g / name_s) take the given values.
pub fn standard_consts(c: &Checked, placeholders: &BTreeMap<String, Value>) -> Result<crate::kit::eval::Consts, TptpError> {
    let mut out = crate::kit::eval::Consts::new();
    for (name, (args, res)) in &c.sig.funcs {
        if !args.is_empty() || *res == Ty::Bool {
            continue;
        }
        if matches!(name.as_str(), "c__infimum__" | "c__supremum__") {
            continue;
        }
        let sort = sort_of_ty(res)?;
        match placeholders.get(name) {
            Some(v) => {
                out.insert((name.clone(), sort), v.clone());
            }
            None => {
                if sort == Sort::S {
                    out.insert((name.clone(), sort), Value::Sym(name.clone()));
                } else {
                    return err("unsupported", format!("constant `{name}` of sort {sort:?} has no value"));
                }
            }
        }
    }
    Ok(out)
}

/// truth value of every annotated formula of a checked problem under (interp, consts)
pub fn eval_problem(c: &Checked, interp: &crate::kit::value::Interp, consts: &crate::kit::eval::Consts) -> Result<Vec<(String, bool, crate::kit::eval::Tv)>, TptpError> {
    let mut out = Vec::new();
    for (name, conj, f) in &c.formulas {
        let mut conv = ToIr::new(&c.sig);
        let ir = conv.form(f)?;
        let (v, _) = crate::kit::eval::eval_ir(&ir, conv.sorts.clone(), interp, interp, consts, crate::kit::eval::World::C);
        out.push((name.clone(), *conj, v));
    }
    Ok(out)
}
