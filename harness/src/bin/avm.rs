//! avm <property> <quick|thorough> [--replay FILE]
use avm::run::{Config, Tier};
use std::path::PathBuf;

fn main() {
    let args: Vec<String> = std::env::args().collect();
    if args.len() < 3 {
        eprintln!("usage: avm <Cxx|selftest> <quick|thorough> [--replay FILE]");
        std::process::exit(2);
    }
    if args[1] == "C16-prefilter" {
        avm::run::install_panic_hook();
        let from = args.get(3).and_then(|s| s.parse().ok()).unwrap_or(0);
        std::process::exit(avm::monitors::c16::prefilter_main(&args[2], from));
    }
    let tier = match args[2].as_str() {
        "thorough" => Tier::Thorough,
        _ => Tier::Quick,
    };
    let mut replay = None;
    let mut i = 3;
    while i < args.len() {
        if args[i] == "--replay" && i + 1 < args.len() {
            replay = Some(PathBuf::from(&args[i + 1]));
            i += 1;
        }
        i += 1;
    }
    let seed = std::env::var("VERIF_SEED").ok().and_then(|s| s.parse::<u64>().ok()).unwrap_or(1);
    let threads = std::env::var("AVM_THREADS").ok().and_then(|s| s.parse().ok()).unwrap_or(16);
    let scale = std::env::var("VERIF_SCALE").ok().and_then(|s| s.parse().ok()).unwrap_or(1.0);
    let (seed, tier, scale) = match replay.as_ref().and_then(|p| avm::run::replay_settings(p)) {
        Some(x) => x,
        None => (seed, tier, scale),
    };
    let verif_dir = PathBuf::from(std::env::var("AVM_VERIF_DIR").unwrap_or_else(|_| "/verif".into()));
    let anthem_build = std::env::var("AVM_ANTHEM_BUILD").map(PathBuf::from).unwrap_or_else(|_| verif_dir.join(".build/anthem"));
    let cfg = Config { prop: args[1].clone(), tier, seed, threads, verif_dir, anthem_build, replay, scale };
    // anthem panics inside guarded() calls are expected observations; keep stderr readable
    avm::run::install_panic_hook();
    let code = avm::monitors::dispatch(&cfg);
    std::process::exit(code);
}
