//! Stand-in for the `vampire` executable (C10). Reads the problem from stdin, looks its hash up
//! in the plan file ($AVM_PLAN: lines `hash outcome delay_ms`), appends one record to the event
//! log ($AVM_LOG, single O_APPEND write) and keeps the exact stdin bytes in $AVM_LOG.d/.
use std::io::{Read, Write};
use std::time::{SystemTime, UNIX_EPOCH};

fn fnv_bytes(b: &[u8]) -> u64 {
    let mut h: u64 = 0xcbf29ce484222325;
    for x in b {
        h ^= *x as u64;
        h = h.wrapping_mul(0x100000001b3);
    }
    h
}

fn now_ns() -> u128 {
    SystemTime::now().duration_since(UNIX_EPOCH).map(|d| d.as_nanos()).unwrap_or(0)
}

fn main() {
    let t_start = now_ns();
    let args: Vec<String> = std::env::args().skip(1).collect();
    let plan = std::env::var("AVM_PLAN").unwrap_or_default();
    let log = std::env::var("AVM_LOG").unwrap_or_default();
    let pid = std::process::id();
    if std::env::var("AVM_EARLY_CLOSE").is_ok() {
        // the prover dies before reading its input
        drop(std::io::stdin());
        let rec = format!("{pid} {t_start} {} 0 early_close {}\n", now_ns(), args.join(" "));
        if let Ok(mut f) = std::fs::OpenOptions::new().append(true).create(true).open(&log) {
            let _ = f.write_all(rec.as_bytes());
        }
        std::process::exit(1);
    }
    let mut input = Vec::new();
    let _ = std::io::stdin().read_to_end(&mut input);
    let h = fnv_bytes(&input);
    let mut outcome = "nostatus".to_string();
    let mut delay: u64 = 0;
    if let Ok(p) = std::fs::read_to_string(&plan) {
        for l in p.lines() {
            let mut it = l.split_whitespace();
            if it.next().and_then(|x| x.parse::<u64>().ok()) == Some(h) {
                outcome = it.next().unwrap_or("nostatus").to_string();
                delay = it.next().and_then(|x| x.parse().ok()).unwrap_or(0);
                break;
            }
        }
    }
    let _ = std::fs::create_dir_all(format!("{log}.d"));
    let _ = std::fs::write(format!("{log}.d/stdin_{pid}_{t_start}.p"), &input);
    std::thread::sleep(std::time::Duration::from_millis(delay));
    let out = std::io::stdout();
    let mut o = out.lock();
    let _ = writeln!(o, "% fake vampire, pid {pid}");
    let mut code = 0;
    match outcome.as_str() {
        "nostatus" => {
            let _ = writeln!(o, "% Termination reason: nothing to report");
        }
        "nonutf8" => {
            let _ = o.write_all(&[0xff, 0xfe, 0x80, b'\n']);
        }
        "theorem_nonutf8" => {
            let _ = writeln!(o, "% SZS status Theorem for x");
            let _ = o.write_all(&[0xff, 0xfe, 0x80, b'\n']);
        }
        "theorem_then_crash" => {
            let _ = writeln!(o, "% SZS status Theorem for x");
            code = 3;
        }
        "nonzero_exit" => {
            let _ = writeln!(o, "% no status, exiting with an error");
            code = 2;
        }
        "kill" => {
            let _ = o.flush();
            let rec = format!("{pid} {t_start} {} {h} {outcome} {}\n", now_ns(), args.join(" "));
            if let Ok(mut f) = std::fs::OpenOptions::new().append(true).create(true).open(&log) {
                let _ = f.write_all(rec.as_bytes());
            }
            std::process::abort();
        }
        "two_lines" => {
            // the first status line counts
            let _ = writeln!(o, "% SZS status GaveUp for x");
            let _ = writeln!(o, "% SZS status Theorem for x");
        }
        w => {
            let _ = writeln!(o, "% SZS status {w} for x");
            let _ = writeln!(o, "% SZS output start Proof for x");
        }
    }
    let _ = o.flush();
    let rec = format!("{pid} {t_start} {} {h} {outcome} {}\n", now_ns(), args.join(" "));
    if let Ok(mut f) = std::fs::OpenOptions::new().append(true).create(true).open(&log) {
        let _ = f.write_all(rec.as_bytes());
    }
    std::process::exit(code);
}
