fn main() {}
