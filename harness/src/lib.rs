//! anthem verification monitors (avm): runtime monitors with reference oracles for the twenty
//! properties in /verif/properties.jsonl. See /verif/DESIGN.md.
pub mod kit;
pub mod monitors;
pub mod run;
