//! C09: every emitted problem is well-formed, well-typed, self-contained TFF.
use crate::kit::json::J;
use crate::kit::rng::Rng;
use crate::kit::tasks::*;
use crate::kit::tptp::{TptpError, read_problem};
use crate::monitors::common::*;
use crate::run::{Config, KnownFinding, Outcome, Stats, finish, load_known, parallel, scratch_dir};
use anthem::syntax_tree::asp::mini_gringo as asp;
use either::Either;
use std::time::{Duration, Instant};

fn ident_of(msg: &str) -> Option<String> {
    let a = msg.find('`')?;
    let b = msg[a + 1..].find('`')?;
    Some(msg[a + 1..a + 1 + b].to_string())
}

/// narrow root-cause class of a reader error, from the error and the problem text itself
pub fn classify(e: &TptpError, text: &str) -> String {
    let id = ident_of(&e.msg).unwrap_or_default();
    let decl_lines: Vec<&str> = text.lines().filter(|l| l.contains(", type, ") && l.contains(&format!(", {id}:"))).collect();
    let sub = match e.class {
        "lex" if id.starts_with('_') => "identifier-with-leading-underscore".to_string(),
        "syntax" if e.msg.contains("ambiguous associativity") => {
            if text.lines().any(|l| l.contains("$less") || l.contains("p__less") || l.contains("$greater") || l.contains("p__greater")) && e.msg.contains("Amp") {
                "unparenthesised-comparison-chain".to_string()
            } else {
                "ambiguous-associativity".to_string()
            }
        }
        "declared-at-two-types" | "duplicate-declaration" => {
            let pred = decl_lines.iter().filter(|l| l.starts_with("tff(predicate_")).count();
            let sym = decl_lines.iter().filter(|l| l.starts_with("tff(type_symbol_")).count();
            let fc = decl_lines.iter().filter(|l| l.starts_with("tff(type_function_constant_")).count();
            let pre = decl_lines.len() - pred - sym - fc;
            if pred >= 2 {
                "predicate-at-two-arities".to_string()
            } else if pred == 1 && sym == 1 {
                if id.ends_with("__s") { "renamed-symbol-equals-predicate".to_string() } else { "symbol-named-like-predicate".to_string() }
            } else if sym == 1 && fc == 1 {
                "symbol-named-like-mangled-placeholder".to_string()
            } else if fc == 2 {
                "two-placeholders-mangled-alike".to_string()
            } else if pred == 1 && fc == 1 {
                "predicate-named-like-mangled-placeholder".to_string()
            } else if pre >= 1 {
                "user-identifier-equals-preamble-symbol".to_string()
            } else {
                format!("p{pred}s{sym}f{fc}")
            }
        }
        _ => String::new(),
    };
    if sub.is_empty() { e.class.to_string() } else { format!("{}:{}", e.class, sub) }
}

pub fn check_problems(problems: &[ProblemData], origin: &J, st: &mut Stats) {
    let mut names = std::collections::BTreeSet::new();
    for p in problems {
        st.inc("problems");
        if !names.insert(p.name.clone()) {
            st.violation("duplicate-problem-name", format!("two problems are named {}", p.name), origin.clone());
        }
        match read_problem(&p.text) {
            Ok(c) => {
                st.inc("problems_accepted_by_strict_reader");
                st.add("formulas_type_checked", c.formulas.len() as u64);
                st.eval(Some(&p.text));
            }
            Err(e) => {
                st.eval(None);
                let class = classify(&e, &p.text);
                st.violation(class, format!("problem {}: {}: {}", p.name, e.class, e.msg), origin.clone().set("problem_name", J::s(&p.name)).set("problem_text", J::s(&p.text)).set("error", J::s(&e.msg)));
                return; // one report per task
            }
        }
    }
}

pub fn strong_case(idx: u64, r: &mut Rng, st: &mut Stats) {
    let so = StrongOpts { hostile_names: r.chance(1, 2), hostile_symbols: r.chance(1, 2), two_arities: r.chance(1, 5), underscore_identifiers: r.chance(1, 5), preamble_names: r.chance(1, 6) };
    let (l, rt) = gen_strong_with(r, so);
    let (Ok(lp), Ok(rp)) = (l.parse::<asp::Program>(), rt.parse::<asp::Program>()) else {
        st.inc("generator_parse_errors");
        return;
    };
    let flags = Flags::random(r);
    let mu = r.chance(1, 2);
    match build_strong(&lp, &rp, mu, flags) {
        Built::Ok { problems, .. } => {
            st.inc("strong_tasks");
            if idx < 2 {
                st.sample(J::obj().set("kind", J::s("strong")).set("left", J::s(&l)).set("right", J::s(&rt)).set("flags", J::s(flags.tag())).set("problems", J::Int(problems.len() as i64)));
            }
            let origin = J::obj().set("kind", J::s("strong")).set("left", J::s(&l)).set("right", J::s(&rt)).set("flags", J::s(flags.tag())).set("mu", J::Bool(mu));
            check_problems(&problems, &origin, st);
        }
        Built::Refused(_) => st.inc("tasks_refused"),
        Built::Panic(_) => st.inc("lost_to_panic"),
    }
}

pub fn origin_ext(t: &ExtTexts, flags: Flags) -> J {
    J::obj()
        .set("kind", J::s("external"))
        .set(if t.left.is_left() { "left_program" } else { "specification" }, J::s(match &t.left { Either::Left(s) | Either::Right(s) => s.clone() }))
        .set("right_program", J::s(&t.right))
        .set("user_guide", J::s(&t.ug))
        .set("proof_outline", J::s(&t.po))
        .set("flags", J::s(flags.tag()))
}

pub fn external_case(cfg: &Config, tmp: &std::path::Path, idx: u64, r: &mut Rng, st: &mut Stats) {
    let mut o = ExtOpts::default();
    o.hostile_identifiers = r.chance(2, 3);
    o.underscore_identifiers = r.chance(1, 4);
    o.two_arities = r.chance(1, 4);
    o.preamble_names = r.chance(1, 6);
    o.sorted_constants = r.chance(1, 3);
    let named = r.chance(1, 3);
    if named {
        o.max_privates = 0;
    }
    let (mut t, _sig) = gen_external(r, &o);
    if named {
        // user-chosen formula names, several formulas with the same name, and names that look
        // like the ones a renaming scheme would produce (`x`, `x_2`, `formula_3_x`)
        if r.chance(2, 3) {
            if let Some(spec) = crate::monitors::c02::derive_spec(&t, r) {
                t.left = Either::Right(spec);
            }
        }
        let base = ["x", "bound", "_n", "formula"][r.upto(4)];
        let mut pick = |r: &mut Rng| -> String {
            match r.below(6) {
                0 | 1 => base.to_string(),
                2 | 3 => format!("{base}_{}", r.upto(12)),
                4 => format!("formula_{}_{base}", r.upto(12)),
                _ => format!("{base}_{}_{}", r.upto(12), r.upto(12)),
            }
        };
        let mut decorate = |r: &mut Rng, text: &str| -> String {
            text.lines()
                .map(|l| {
                    for role in ["spec", "assumption", "lemma"] {
                        if l.starts_with(role) && !l.contains('[') && r.chance(3, 4) {
                            if let Some(c) = l.find(':') {
                                return format!("{}[{}]{}", &l[..c], pick(r), &l[c..]);
                            }
                        }
                    }
                    l.to_string()
                })
                .collect::<Vec<_>>()
                .join("\n")
        };
        if let Either::Right(s) = &t.left {
            t.left = Either::Right(decorate(r, s));
        }
        t.ug = decorate(r, &t.ug);
        let mut po = Vec::new();
        for _ in 0..r.upto(5) {
            let dir = ["", "(forward)", "(backward)", "(universal)"][r.upto(4)];
            let k = r.upto(4);
            po.push(format!("lemma{dir}: {k} = {k}."));
        }
        t.po = decorate(r, &po.join("\n"));
        st.inc("external_tasks_with_named_formulas");
    }
    let parsed = match parse_ext(&t) {
        Ok(p) => p,
        Err(_) => {
            st.inc("generator_parse_errors");
            return;
        }
    };
    let flags = Flags::random(r);
    match build_external(&parsed, false, flags) {
        Built::Ok { problems, .. } => {
            st.inc("external_tasks");
            if idx < 2 {
                st.sample(origin_ext(&t, flags).set("problems", J::Int(problems.len() as i64)));
            }
            check_problems(&problems, &origin_ext(&t, flags), st);
            // the files written by --save-problems are byte-identical to the in-process text
            if idx % 37 == 0 {
                let d = tmp.join(format!("t{idx}"));
                let out = d.join("out");
                std::fs::create_dir_all(&out).unwrap();
                let first = if t.left.is_left() { "a.1.lp" } else { "a.1.spec" };
                std::fs::write(d.join(first), match &t.left { Either::Left(s) | Either::Right(s) => s }).unwrap();
                std::fs::write(d.join("a.po"), &t.po).unwrap();
                std::fs::write(d.join("a.2.lp"), &t.right).unwrap();
                std::fs::write(d.join("a.ug"), &t.ug).unwrap();
                let mut args: Vec<String> = vec!["verify".into(), "--equivalence".into(), "external".into(), "--no-proof-search".into(), "--save-problems".into(), out.to_str().unwrap().into()];
                args.extend(flags.cli_args());
                for f in [first, "a.2.lp", "a.ug", "a.po"] {
                    args.push(d.join(f).to_str().unwrap().into());
                }
                let argv: Vec<&str> = args.iter().map(|s| s.as_str()).collect();
                if let Ok(o) = run_cli(&cfg.anthem_release(), &argv, None, &[], None) {
                    st.inc("cli_runs");
                    let mut why: Vec<String> = Vec::new();
                    if o.code != Some(0) {
                        why.push(format!("exit status {:?}", o.code));
                    }
                    for p in &problems {
                        let f = out.join(format!("{}.p", p.name));
                        match std::fs::read_to_string(&f) {
                            Ok(s) if s == p.text => {}
                            Ok(_) => why.push(format!("{}.p differs", p.name)),
                            Err(_) => why.push(format!("{}.p missing", p.name)),
                        }
                    }
                    let n_files = std::fs::read_dir(&out).map(|d| d.count()).unwrap_or(0);
                    if n_files != problems.len() {
                        why.push(format!("{} files for {} problems", n_files, problems.len()));
                    }
                    if !why.is_empty() {
                        st.violation("saved-files-differ", format!("files written by --save-problems differ from the in-process problem texts: {}", why.join("; ")), origin_ext(&t, flags).set("stderr", J::s(o.stderr)).set("stdout", J::s(o.stdout)));
                    }
                }
                let _ = std::fs::remove_dir_all(&d);
            }
        }
        Built::Refused(_) => st.inc("tasks_refused"),
        Built::Panic(_) => st.inc("lost_to_panic"),
    }
}

/// replays a known finding: witness = {kind, left, right, user_guide?, flags?}
pub fn replay_witness(k: &KnownFinding) -> Vec<crate::run::Violation> {
    let mut st = Stats::default();
    let w = &k.witness;
    let flags = Flags { sequential: w.boolean("sequential").unwrap_or(true), direction: Dir::Universal, simplify: w.boolean("simplify").unwrap_or(true), break_equivalences: w.boolean("break_equivalences").unwrap_or(true) };
    if w.str("kind") == Some("strong") {
        if let (Some(Ok(l)), Some(Ok(r))) = (w.str("left").map(|s| s.parse::<asp::Program>()), w.str("right").map(|s| s.parse::<asp::Program>())) {
            if let Built::Ok { problems, .. } = build_strong(&l, &r, false, flags) {
                check_problems(&problems, &J::obj(), &mut st);
            }
        }
    } else {
        let t = ExtTexts {
            left: match w.str("specification") {
                Some(s) => Either::Right(s.to_string()),
                None => Either::Left(w.str("left").unwrap_or("").to_string()),
            },
            right: w.str("right").unwrap_or("").to_string(),
            ug: w.str("user_guide").unwrap_or("").to_string(),
            po: w.str("proof_outline").unwrap_or("").to_string(),
        };
        if let Ok(p) = parse_ext(&t) {
            if let Built::Ok { problems, .. } = build_external(&p, false, flags) {
                check_problems(&problems, &J::obj(), &mut st);
            }
        }
    }
    st.violations
}

pub fn run(cfg: &Config) -> i32 {
    let started = Instant::now();
    require_binaries(cfg);
    let tmp = scratch_dir(cfg, "c09");
    let budget = Duration::from_secs_f64(cfg.pick(40.0, 400.0) * cfg.scale);
    let mut stats = parallel(cfg, "external", cfg.scaled(cfg.pick(20_000, 400_000)), budget, |idx, r, st| external_case(cfg, &tmp, idx, r, st));
    let s2 = parallel(cfg, "strong", cfg.scaled(cfg.pick(12_000, 400_000)), budget / 2, |idx, r, st| strong_case(idx, r, st));
    stats.merge(s2);
    let _ = std::fs::remove_dir_all(&tmp);
    let mut known_replayed = Vec::new();
    for k in load_known(cfg).into_iter().filter(|k| k.property == "C09" && k.status == "open") {
        let still = replay_witness(&k).iter().any(|v| v.class == k.class);
        known_replayed.push((k, still));
    }
    finish(
        cfg,
        started,
        Outcome {
            stats,
            level: "exploration",
            rule: "generated accepted external-equivalence tasks (hostile identifier pool: leading underscores, _i/_g/_s and __s suffixes, names of preamble symbols, symbols named like predicates or mangled placeholders, one predicate name at two arities) and strong-equivalence tasks, random flag combinations; every problem text is read by the strict TFF reader/type checker; a non-trivial case is a distinct problem text accepted by the reader".into(),
            assumptions: vec!["the strict reader implements the TFF fragment of DESIGN.md Appendix C; cross-checked against the repository's tptp4X on the example problems (kit self-test)".into()],
            floor: cfg.pick(30_000, 100_000),
            floor_counter: "problems_accepted_by_strict_reader".into(),
            known_replayed,
            extra: J::obj(),
        },
    )
}
