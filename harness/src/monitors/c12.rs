//! C12: axioms anthem adds on its own (preamble, symbol ordering, h-implies-t) are true in
//! every standard interpretation.
use crate::kit::eval::{Tv, World, eval_ir};
use crate::kit::generate::{default_pool, gen_ht, small_pool, value_of_sort};
use crate::kit::ir::Sort;
use crate::kit::json::J;
use crate::kit::rng::Rng;
use crate::kit::tasks::*;
use crate::kit::tptp::{ToIr, Ty, read_problem, standard_consts};
use crate::kit::value::{Interp, Value};
use crate::monitors::c05::ht_as_classical;
use crate::monitors::common::*;
use crate::run::{Config, KnownFinding, Outcome, Stats, finish, load_known, parallel};
use std::collections::{BTreeMap, BTreeSet};
use std::time::{Duration, Instant};

fn auto_axiom_kind(name: &str) -> Option<&'static str> {
    if name.starts_with("symbol_order_") {
        Some("symbol-order")
    } else if name.contains("transition_axiom") {
        Some("transition")
    } else if !name.starts_with("formula_") {
        Some("preamble")
    } else {
        None
    }
}

/// checks the auto-generated axioms of one problem under `interp`; `ht`: the interpretation
/// arises from H subset-of T (transition axioms are only claimed for those)
pub fn check_problem(p: &ProblemData, interp: &Interp, ht: bool, r: &mut Rng, origin: &J, st: &mut Stats) {
    let c = match read_problem(&p.text) {
        Ok(c) => c,
        Err(_) => {
            st.inc("problems_not_readable_see_C09");
            return;
        }
    };
    st.inc("problems");
    // declared predicates of arity 0 (for undoing the renaming of conflicting symbols)
    let pred_names: BTreeSet<&String> = c.sig.funcs.iter().filter(|(_, (_, res))| *res == Ty::Bool).map(|(n, _)| n).collect();
    let mut symbols: Vec<String> = Vec::new();
    let mut ph: BTreeMap<String, Value> = BTreeMap::new();
    let pool = default_pool();
    for (name, (args, res)) in &c.sig.funcs {
        if !args.is_empty() || matches!(name.as_str(), "c__infimum__" | "c__supremum__") {
            continue;
        }
        match res {
            Ty::Named(t) if t == "symbol" => {
                if name.ends_with("_s") && !name.ends_with("__s") && p.formulas.iter().any(|(_, _, f)| f.function_constants().iter().any(|fc| format!("{}_s", fc.name) == *name)) {
                    ph.insert(name.clone(), value_of_sort(r, &pool, Sort::S));
                } else {
                    // a symbolic constant denotes itself; a constant renamed because of a clash with
                    // a predicate (suffix __s) denotes the original symbol
                    let original = match name.strip_suffix("__s") {
                        Some(base) if pred_names.contains(&base.to_string()) => base.to_string(),
                        _ => name.clone(),
                    };
                    ph.insert(name.clone(), Value::Sym(original));
                    symbols.push(name.clone());
                }
            }
            Ty::Int => {
                ph.insert(name.clone(), value_of_sort(r, &pool, Sort::I));
            }
            Ty::Named(t) if t == "general" => {
                ph.insert(name.clone(), value_of_sort(r, &pool, Sort::G));
            }
            _ => {}
        }
    }
    let Ok(consts) = standard_consts(&c, &ph) else {
        st.inc("problems_not_interpretable");
        return;
    };
    // structural chain check
    let mut chain: Vec<(String, String)> = Vec::new();
    for (name, _, f) in &c.formulas {
        if name.starts_with("symbol_order_") {
            use crate::kit::tptp::{TForm, TTerm};
            let ok = if let TForm::Pred(pn, args) = f {
                if pn == "p__less__" && args.len() == 2 {
                    match (&args[0], &args[1]) {
                        (TTerm::App(f1, a1), TTerm::App(f2, a2)) if f1 == "f__symbolic__" && f2 == "f__symbolic__" && a1.len() == 1 && a2.len() == 1 => match (&a1[0], &a2[0]) {
                            (TTerm::App(x, xa), TTerm::App(y, ya)) if xa.is_empty() && ya.is_empty() => {
                                chain.push((x.clone(), y.clone()));
                                true
                            }
                            _ => false,
                        },
                        _ => false,
                    }
                } else {
                    false
                }
            } else {
                false
            };
            if !ok {
                st.violation("symbol-order:unexpected-shape", format!("symbol order axiom {name} has an unexpected shape"), origin.clone().set("problem", J::s(&p.name)));
            }
        }
    }
    st.inc("chain_checks");
    let declared: BTreeSet<String> = symbols.iter().cloned().collect();
    let mentioned: BTreeSet<String> = chain.iter().flat_map(|(a, b)| [a.clone(), b.clone()]).collect();
    let chain_ok_links = chain.windows(2).all(|w| w[0].1 == w[1].0);
    if declared.len() >= 2 && (mentioned != declared || chain.len() + 1 != declared.len() || !chain_ok_links) {
        st.eval(None);
        st.violation(
            "symbol-order:chain-does-not-cover-symbols",
            format!("symbol order chain {chain:?} does not form one chain over the declared symbolic constants {declared:?}"),
            origin.clone().set("problem", J::s(&p.name)),
        );
    }
    if !mentioned.is_subset(&declared) {
        st.violation("symbol-order:undeclared-symbol", format!("symbol order chain mentions undeclared constants: {chain:?}"), origin.clone().set("problem", J::s(&p.name)));
    }
    for (a, b) in &chain {
        let (Some(Value::Sym(x)), Some(Value::Sym(y))) = (ph.get(a), ph.get(b)) else { continue };
        st.inc("chain_links_checked");
        if !(x < y) {
            st.eval(None);
            let renamed = a != x || b != y;
            st.violation(
                if renamed { "symbol-order:renamed-symbol-out-of-order" } else { "symbol-order:not-increasing" },
                format!("ordering axiom {a} < {b} is false in the standard order (the constants denote {x} and {y})"),
                origin.clone().set("problem", J::s(&p.name)),
            );
        }
    }
    // semantic check of every auto-generated axiom
    for (name, conj, f) in &c.formulas {
        if *conj {
            continue;
        }
        let Some(kind) = auto_axiom_kind(name) else { continue };
        if kind == "transition" && !ht {
            continue;
        }
        if kind == "symbol-order" {
            // decided by the chain check above (one root cause, one class)
            st.inc("axiom_evaluations");
            st.inc("axiom_evaluations_symbol-order");
            continue;
        }
        let mut conv = ToIr::new(&c.sig);
        let Ok(ir) = conv.form(f) else {
            st.inc("axioms_not_interpretable");
            continue;
        };
        let ctx_sorts = conv.sorts.clone();
        let (v, _stats) = eval_ir(&ir, ctx_sorts, interp, interp, &consts, World::C);
        st.inc("axiom_evaluations");
        st.inc(&format!("axiom_evaluations_{kind}"));
        match v {
            Tv::T => {
                st.inc("axioms_definitely_true");
                st.eval(Some(&format!("{name}|{}|{}", p.text.len(), interp_json(interp).compact())));
            }
            Tv::U => {
                st.inc("axioms_without_counterexample_on_sampled_instances");
                st.eval(Some(&format!("{name}|{}|{}", p.text.len(), interp_json(interp).compact())));
            }
            Tv::F => {
                st.eval(None);
                st.violation(
                    format!("false-axiom:{kind}:{}", if kind == "preamble" { name.as_str() } else { "" }),
                    format!("auto-generated axiom {name} is false in a standard interpretation"),
                    origin.clone().set("problem", J::s(&p.name)).set("axiom", J::s(name)).set("I", interp_json(interp)).set("constants", consts_json(&consts)),
                );
            }
        }
    }
}

fn strong_case(cfg: &Config, idx: u64, r: &mut Rng, st: &mut Stats) {
    let so = StrongOpts { hostile_names: r.chance(1, 2), hostile_symbols: r.chance(1, 2), ..Default::default() };
    let (mut l, rt) = gen_strong_with(r, so);
    if r.chance(1, 5) {
        // a predicate of arity 10-12: the transition axiom has many (and multi-digit) variables
        let n = 10 + r.upto(3);
        let args: Vec<String> = (0..n).map(|i| format!("{}", i % 4)).collect();
        l.push_str(&format!("\nbig({}) :- not s0.", args.join(",")));
        st.inc("strong_tasks_with_large_arity_predicate");
    }
    let (Ok(lp), Ok(rp)) = (parse_program(&l), parse_program(&rt)) else { return };
    let flags = Flags::random(r);
    let Built::Ok { problems, .. } = build_strong(&lp, &rp, r.chance(1, 2), flags) else { return };
    st.inc("strong_tasks");
    let mut preds = program_preds(&lp);
    for p in program_preds(&rp) {
        if !preds.contains(&p) {
            preds.push(p);
        }
    }
    let origin = J::obj().set("kind", J::s("strong")).set("left", J::s(&l)).set("right", J::s(&rt)).set("flags", J::s(flags.tag()));
    if idx < 2 {
        st.sample(origin.clone().set("problem_names", J::Arr(problems.iter().map(|p| J::s(&p.name)).collect())));
    }
    let pool = default_pool();
    for k in 0..cfg.pick(3, 5) {
        let (h, t) = gen_ht(r, &preds, &pool, if k % 3 == 2 { 3 } else { 0 });
        let j = ht_as_classical(&h, &t);
        for p in problems.iter().take(2) {
            check_problem(p, &j, true, r, &origin, st);
        }
    }
}

fn external_case(cfg: &Config, idx: u64, r: &mut Rng, st: &mut Stats) {
    let mut o = ExtOpts::default();
    o.hostile_identifiers = r.chance(2, 3);
    let (t, _sig) = gen_external(r, &o);
    let Ok(parsed) = parse_ext(&t) else { return };
    let flags = Flags::random(r);
    let Built::Ok { problems, .. } = build_external(&parsed, false, flags) else { return };
    st.inc("external_tasks");
    let origin = crate::monitors::c09::origin_ext(&t, flags);
    if idx < 2 {
        st.sample(origin.clone());
    }
    let preds = crate::monitors::sem::problem_preds(&problems);
    let pool = small_pool();
    for _ in 0..cfg.pick(2, 4) {
        let (_, i) = gen_ht(r, &preds, &pool, 4);
        for p in problems.iter().take(2) {
            check_problem(p, &i, false, r, &origin, st);
        }
    }
}

fn replay_known(k: &KnownFinding) -> bool {
    let w = &k.witness;
    let (Some(Ok(l)), Some(Ok(rp))) = (w.str("left").map(|s| s.parse()), w.str("right").map(|s| s.parse())) else { return false };
    let flags = Flags { sequential: true, direction: Dir::Universal, simplify: true, break_equivalences: true };
    let Built::Ok { problems, .. } = build_strong(&l, &rp, false, flags) else { return false };
    let mut st = Stats::default();
    let mut r = Rng::new(1);
    for p in &problems {
        check_problem(p, &Interp::default(), false, &mut r, &J::obj(), &mut st);
    }
    st.violations.iter().any(|v| v.class == k.class)
}

pub fn run(cfg: &Config) -> i32 {
    let started = Instant::now();
    let budget = Duration::from_secs_f64(cfg.pick(30.0, 300.0) * cfg.scale);
    let mut stats = parallel(cfg, "strong", cfg.scaled(cfg.pick(5000, 1_000_000)), budget, |idx, r, st| strong_case(cfg, idx, r, st));
    let s2 = parallel(cfg, "external", cfg.scaled(cfg.pick(5000, 1_000_000)), budget, |idx, r, st| external_case(cfg, idx, r, st));
    stats.merge(s2);
    let mut known_replayed = Vec::new();
    for k in load_known(cfg).into_iter().filter(|k| k.property == "C12" && k.status == "open") {
        let still = replay_known(&k);
        known_replayed.push((k, still));
    }
    finish(
        cfg,
        started,
        Outcome {
            stats,
            level: "exploration",
            rule: "problems of generated strong- and external-equivalence tasks (up to 9 symbolic constants incl. ones renamed because they clash with predicates, placeholders of all sorts); every auto-generated axiom (preamble, symbol_order_*, transition axioms) is read from the problem text by the strict TFF reader and evaluated under the standard interpretation (declared symbols denote themselves, random placeholder values, predicate extents from H subset-of T for strong tasks); only a definite False is a verdict, universally quantified preamble axioms are sampled on the evaluator's candidate windows around every constant (counters: axioms_definitely_true vs axioms_without_counterexample_on_sampled_instances); the ordering chain is checked structurally (covers all declared symbols, consecutive, strictly increasing in the standard order of the symbols the constants denote)".into(),
            assumptions: vec!["strict TFF reader and evaluator trusted; truth of universally quantified preamble axioms over $int/general is sampled, not certified".into()],
            floor: cfg.pick(20_000, 100_000),
            floor_counter: "axiom_evaluations".into(),
            known_replayed,
            extra: J::obj(),
        },
    )
}
