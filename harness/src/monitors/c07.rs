//! C07: simplification portfolios preserve the meaning of every formula.
use crate::kit::eval::{Consts, Tv, World, eval_fol};
use crate::kit::generate::{FOL_VARS, FolOpts, default_pool, gen_assignment, gen_formula, gen_ht, show_assign, value_of_sort};
use crate::kit::json::J;
use crate::kit::redex::{gen_realistic, gen_redex};
use crate::kit::rng::Rng;
use crate::kit::simp::{PORTFOLIOS, Portfolio, STRATEGIES, Strategy, node_count, run_strategy};
use crate::monitors::common::*;
use crate::run::{Config, KnownFinding, Outcome, Stats, finish, load_known, parallel, scratch_dir};
use anthem::syntax_tree::fol::sigma_0 as fol;
use std::collections::BTreeSet;
use std::time::{Duration, Instant};

pub fn gen_input(r: &mut Rng, depth: u32) -> Vec<(fol::Formula, String)> {
    match r.below(10) {
        0..=2 => {
            let mut o = FolOpts::default();
            o.depth = depth;
            let t = gen_formula(r, &o, depth);
            parse_formula(&t).map(|f| vec![(f, "random".to_string())]).unwrap_or_default()
        }
        3..=7 => {
            let (t, tag) = gen_redex(r);
            parse_formula(&t).map(|f| vec![(f, format!("redex:{tag}"))]).unwrap_or_default()
        }
        _ => gen_realistic(r).into_iter().map(|(f, t)| (f, format!("realistic:{t}"))).collect(),
    }
}

struct Disagreement {
    h: crate::kit::value::Interp,
    t: crate::kit::value::Interp,
    sigma: crate::kit::eval::Assign,
    a: Tv,
    b: Tv,
}

/// compares f and g on n interpretations in the logic of the portfolio
fn compare(f: &fol::Formula, g: &fol::Formula, classical: bool, r: &mut Rng, n: usize, st: &mut Stats, count: bool) -> Option<Disagreement> {
    let pool = default_pool();
    let consts = Consts::new();
    let mut preds = formula_preds(f);
    for p in formula_preds(g) {
        if !preds.contains(&p) {
            preds.push(p);
        }
    }
    let vars: Vec<(String, String)> = FOL_VARS.iter().map(|(a, b)| (a.to_string(), b.to_string())).collect();
    for k in 0..n {
        let (h, t) = gen_ht(r, &preds, &pool, if k % 3 == 2 { 3 } else { 0 });
        let mut sigma = gen_assignment(r, &vars, &pool);
        for v in f.free_variables().into_iter().chain(g.free_variables()) {
            let s = sort_of(v.sort);
            sigma.entry((v.name.clone(), s)).or_insert_with(|| value_of_sort(r, &pool, s));
        }
        let (w, hh) = if classical { (World::C, &t) } else { (World::H, &h) };
        let a = eval_fol(f, hh, &t, &consts, &sigma, w).0;
        let b = eval_fol(g, hh, &t, &consts, &sigma, w).0;
        match (a, b) {
            (Tv::U, _) | (_, Tv::U) => {
                if count {
                    st.inc("unknown")
                }
            }
            (a, b) if a == b => {
                if count {
                    st.inc("definite_comparisons")
                }
            }
            (a, b) => {
                if count {
                    st.inc("definite_comparisons")
                }
                return Some(Disagreement { h: hh.clone(), t: t.clone(), sigma, a, b });
            }
        }
    }
    None
}

/// root cause: the first single rewrite application (in the recorded trace) whose output is not
/// equivalent to its input, confirmed end-to-end on that node as an input of its own
fn attribute(p: Portfolio, trace: &crate::kit::simp::Trace, r: &mut Rng, st: &mut Stats) -> Option<(String, String, String)> {
    for n in [24, 160] {
        for s in &trace.steps {
            let mut scratch = Stats::default();
            if compare(&s.before, &s.after, p.is_classical(), r, n, &mut scratch, false).is_some() {
                st.inc("attributed_steps");
                return Some((s.rewrite.clone(), s.before.to_string(), s.after.to_string()));
            }
        }
    }
    if trace.steps.len() == 1 {
        let s = &trace.steps[0];
        return Some((s.rewrite.clone(), s.before.to_string(), s.after.to_string()));
    }
    None
}

pub fn check_formula(f: &fol::Formula, source: &str, r: &mut Rng, n_interps: usize, st: &mut Stats, feedback: bool) {
    let nodes = node_count(f);
    for p in PORTFOLIOS {
        for s in STRATEGIES {
            let res = run_strategy(p, s, f.clone(), 4_000 + nodes * 200, 64);
            let (g, trace) = match res {
                Ok(x) => x,
                Err(e) => {
                    if e == "AVM_STEP_LIMIT" {
                        st.inc("step_limit_hits_see_C18");
                    } else {
                        // no formula is returned at all (also a C16 matter; reported here with the
                        // strategy that triggers it)
                        st.eval(None);
                        st.violation(
                            format!("panic:{}", crate::run::last_panic_location().unwrap_or("?".into())),
                            format!("{} {} panicked on {}: {}", p.cli_name(), s.cli_name(), f, e),
                            J::obj().set("portfolio", J::s(p.cli_name())).set("strategy", J::s(s.cli_name())).set("input", J::s(f.to_string())).set("source", J::s(source)),
                        );
                    }
                    continue;
                }
            };
            st.inc("strategy_runs");
            for (name, n) in &trace.fired {
                if *n > 0 {
                    st.add(&format!("fired_{name}"), *n);
                }
            }
            if g != *f {
                st.inc("strategy_runs_that_changed_the_formula");
            }
            let key = format!("{}|{}|{}", p.cli_name(), s.cli_name(), f);
            // free variables
            let fv_f: BTreeSet<fol::Variable> = f.free_variables().into_iter().collect();
            let fv_g: BTreeSet<fol::Variable> = g.free_variables().into_iter().collect();
            if !fv_g.is_subset(&fv_f) {
                let culprit = attribute(p, &trace, r, st);
                let class = format!("new-free-variable:{}", culprit.as_ref().map(|c| c.0.as_str()).unwrap_or("unattributed"));
                st.eval(None);
                st.violation(
                    class,
                    format!("{} {}: result has free variables the input lacks: {} => {}", p.cli_name(), s.cli_name(), f, g),
                    J::obj().set("portfolio", J::s(p.cli_name())).set("strategy", J::s(s.cli_name())).set("input", J::s(f.to_string())).set("output", J::s(g.to_string())).set("source", J::s(source)),
                );
                continue;
            }
            if g == *f {
                st.eval(None);
                continue;
            }
            match compare(f, &g, p.is_classical(), r, n_interps, st, true) {
                None => st.eval(Some(&key)),
                Some(d) => {
                    st.eval(None);
                    let culprit = attribute(p, &trace, r, st);
                    let class = match &culprit {
                        Some((rw, _, _)) => format!("meaning-changed:{rw}"),
                        None => "meaning-changed:unattributed".to_string(),
                    };
                    let mut det = J::obj()
                        .set("portfolio", J::s(p.cli_name()))
                        .set("strategy", J::s(s.cli_name()))
                        .set("input", J::s(f.to_string()))
                        .set("output", J::s(g.to_string()))
                        .set("source", J::s(source))
                        .set("H_or_I", interp_json(&d.h))
                        .set("T", interp_json(&d.t))
                        .set("assignment", J::s(show_assign(&d.sigma)))
                        .set("input_value", J::s(format!("{:?}", d.a)))
                        .set("output_value", J::s(format!("{:?}", d.b)));
                    if let Some((rw, before, after)) = &culprit {
                        det.put("first_bad_step", J::obj().set("rewrite", J::s(rw)).set("before", J::s(before)).set("after", J::s(after)));
                    }
                    st.violation(class, format!("{} {}: {} => {} ({:?} vs {:?})", p.cli_name(), s.cli_name(), f, g, d.a, d.b), det);
                }
            }
            // feedback: intermediate nodes on which a rewrite fired become inputs of their own
            if feedback && p == Portfolio::Classic && s == Strategy::Recursive {
                for step in trace.steps.iter().take(6) {
                    if step.before != *f {
                        st.inc("feedback_inputs");
                        check_formula(&step.before, &format!("intermediate-of:{source}"), r, n_interps.min(6), st, false);
                    }
                }
            }
        }
    }
}

fn case(cfg: &Config, tmp: &std::path::Path, idx: u64, r: &mut Rng, st: &mut Stats) {
    let inputs = gen_input(r, cfg.pick(3, 4));
    if inputs.is_empty() {
        st.inc("generator_empty");
        return;
    }
    for (f, source) in inputs.into_iter().take(3) {
        st.inc("formulas");
        st.inc(&format!("source_{}", source.split(':').next().unwrap()));
        if idx < 4 {
            st.sample(J::obj().set("source", J::s(&source)).set("formula", J::s(f.to_string())).set(
                "classic_fixpoint",
                J::s(run_strategy(Portfolio::Classic, Strategy::Fixpoint, f.clone(), 1_000_000, 0).map(|x| x.0.to_string()).unwrap_or("-".into())),
            ));
        }
        check_formula(&f, &source, r, cfg.pick(8, 12), st, true);
        // bind to the CLI: same output as `anthem simplify`
        // (only when the printed formula re-parses to the same tree: print/parse round trips are C15's matter)
        if idx % 151 == 0 && f.free_variables().is_empty() && format!("{f}").parse::<fol::Formula>().ok().as_ref() == Some(&f) {
            let file = tmp.join(format!("c07_{idx}.spec"));
            std::fs::write(&file, format!("{f}.\n")).unwrap();
            for p in PORTFOLIOS {
                for s in STRATEGIES {
                    let Ok((g, _)) = run_strategy(p, s, f.clone(), 1_000_000, 0) else { continue };
                    if let Ok(out) = run_cli(&cfg.anthem_release(), &["simplify", "--portfolio", p.cli_name(), "--strategy", s.cli_name(), file.to_str().unwrap()], None, &[], None) {
                        st.inc("cli_runs");
                        if out.code != Some(0) || out.stdout != format!("{g}.\n") {
                            st.violation("cli-differs", format!("`anthem simplify --portfolio {} --strategy {}` prints something else than the library path", p.cli_name(), s.cli_name()), J::obj().set("input", J::s(f.to_string())).set("stdout", J::s(out.stdout)).set("expected", J::s(format!("{g}.\n"))));
                        }
                    }
                }
            }
            let _ = std::fs::remove_file(&file);
        }
    }
}

fn replay_known(k: &KnownFinding, st: &mut Stats) -> bool {
    let Some(f) = k.witness.str("formula") else { return false };
    let Ok(f) = f.parse::<fol::Formula>() else { return false };
    let mut tmp = Stats::default();
    let mut r = Rng::new(11);
    check_formula(&f, "known-finding-witness", &mut r, 40, &mut tmp, false);
    st.add("known_finding_replays", 1);
    tmp.violations.iter().any(|v| v.class == k.class)
}

pub fn run(cfg: &Config) -> i32 {
    let started = Instant::now();
    require_binaries(cfg);
    let tmp = scratch_dir(cfg, "c07");
    let budget = Duration::from_secs_f64(cfg.pick(60.0, 600.0) * cfg.scale);
    let mut stats = parallel(cfg, "main", cfg.scaled(cfg.pick(8_000, 5_000_000)), budget, |idx, r, st| case(cfg, &tmp, idx, r, st));
    let _ = std::fs::remove_dir_all(&tmp);
    let mut known_replayed = Vec::new();
    for k in load_known(cfg).into_iter().filter(|k| k.property == "C07" && k.status == "open") {
        let still = replay_known(&k, &mut stats);
        known_replayed.push((k, still));
    }
    // every rewrite must have fired, otherwise the run is inconclusive for it
    let mut never: Vec<String> = Vec::new();
    for (name, _) in Portfolio::Classic.rewrites() {
        if stats.counters.get(&format!("fired_{name}")).cloned().unwrap_or(0) == 0 {
            never.push(name);
        }
    }
    if !never.is_empty() {
        eprintln!("[avm] rewrites that never fired (inconclusive for them): {never:?}");
        stats.add("rewrites_never_fired", never.len() as u64);
    }
    finish(
        cfg,
        started,
        Outcome {
            stats,
            level: "exploration",
            rule: "formulas from three sources (random with shadowing, redex templates per rewrite with hostile fillers, tau*/completion/gamma outputs) plus the intermediate nodes on which a rewrite fired, each under 3 portfolios x 3 strategies through the real Apply::apply/apply_fixpoint; a non-trivial case is a (portfolio, strategy, formula) whose result differs syntactically from the input and whose before/after evaluation (HT for intuitionistic/ht, classical for classic) was definite on the sampled interpretations; per-rewrite fire counts are in counters.fired_*".into(),
            assumptions: vec![
                "oracle kit as in C01; equivalence is sampled on interpretations and assignments".into(),
                "the instrumented closure folds the portfolio exactly like convenience::compose; a CLI sample checks that `anthem simplify` prints the same result".into(),
            ],
            floor: cfg.pick(30_000, 200_000),
            floor_counter: "definite_comparisons".into(),
            known_replayed,
            extra: J::obj().set("rewrites_never_fired", J::strs(&never)),
        },
    )
}
