//! C08: natural and mu translations are HT-equivalent to tau*, rule by rule.
use crate::kit::aspref::{Ref, RefStats, fallback_values};
use crate::kit::eval::{Assign, Consts, Tv, World, eval_fol};
use crate::kit::generate::{ProgOpts, default_pool, gen_ht, gen_regular_rule, gen_rule};
use crate::kit::json::J;
use crate::kit::rng::Rng;
use crate::monitors::c01::div_conv;
use crate::monitors::common::*;
use crate::run::{Config, Outcome, Stats, finish, guarded, parallel, scratch_dir};
use anthem::syntax_tree::fol::sigma_0 as fol;
use anthem::translating::formula_representation::{mu::Mu, natural::Natural, tau_star::TauStar};
use std::collections::BTreeMap;
use std::time::{Duration, Instant};

fn has_int_var(f: &fol::Formula) -> bool {
    f.variables().iter().any(|v| v.sort == fol::Sort::Integer)
}

fn case(cfg: &Config, tmp: &std::path::Path, idx: u64, r: &mut Rng, st: &mut Stats) {
    let preds: Vec<(String, usize)> = vec![("p".into(), 1), ("q".into(), 1), ("r".into(), 2), ("s".into(), 0)];
    let n_rules = 1 + r.upto(2);
    let mut rules = Vec::new();
    for _ in 0..n_rules {
        if r.chance(3, 4) {
            let bias = if r.chance(1, 3) { 2 } else { 8 };
            rules.push(gen_regular_rule(r, &preds, bias));
        } else {
            let mut o = ProgOpts::default();
            o.safe = r.chance(1, 2);
            rules.push(gen_rule(r, &o));
        }
    }
    let text = rules.join("\n");
    let prog = match parse_program(&text) {
        Ok(p) => p,
        Err(e) => {
            st.inc(if e.starts_with("PANIC") { "lost_to_panic" } else { "generator_parse_errors" });
            return;
        }
    };
    st.inc("programs");
    let tau = match guarded(|| prog.clone().tau_star()) {
        Ok(t) => t,
        Err(_) => {
            st.inc("lost_to_panic");
            return;
        }
    };
    // mu must never fail or panic
    let mu = match guarded(|| prog.clone().mu()) {
        Ok(t) => t,
        Err(p) => {
            st.eval(None);
            st.violation("mu-panic", format!("mu panicked: {p}"), J::obj().set("program", J::s(&text)));
            return;
        }
    };
    let nat = match guarded(|| prog.clone().natural()) {
        Ok(t) => t,
        Err(p) => {
            st.eval(None);
            st.violation("natural-panic", format!("natural panicked: {p}"), J::obj().set("program", J::s(&text)));
            return;
        }
    };
    let mut sides: Vec<(&str, &fol::Theory)> = vec![("mu", &mu)];
    if let Some(n) = &nat {
        st.inc("programs_accepted_by_natural");
        sides.push(("natural", n));
    } else {
        st.inc("programs_rejected_by_natural");
    }
    for (name, th) in &sides {
        if th.formulas.len() != prog.rules.len() {
            st.violation(format!("{name}-formula-count"), format!("{name} returned {} formulas for {} rules", th.formulas.len(), prog.rules.len()), J::obj().set("program", J::s(&text)));
            return;
        }
        for f in &th.formulas {
            if !f.free_variables().is_empty() {
                st.violation(format!("{name}-not-closed"), format!("{name} formula has free variables: {f}"), J::obj().set("program", J::s(&text)));
                return;
            }
        }
    }
    if idx < 3 {
        st.sample(J::obj().set("program", J::s(&text)).set("natural", J::s(nat.as_ref().map(|t| t.to_string()).unwrap_or("rejected".into()))).set("mu", J::s(mu.to_string())));
    }
    let consts = Consts::new();
    let assign = Assign::new();
    let ph = BTreeMap::new();
    let pool = default_pool();
    let n_interps = cfg.pick(10, 16);
    for k in 0..n_interps {
        let (h, t) = gen_ht(r, &preds, &pool, if k % 4 == 3 { 3 } else { 0 });
        let rs = RefStats::default();
        let re = Ref { placeholders: &ph, div: div_conv(), stats: &rs };
        let fb = fallback_values(&prog, &[&h, &t], &[]);
        for (i, rule) in prog.rules.iter().enumerate() {
            let tv = eval_fol(&tau.formulas[i], &h, &t, &consts, &assign, World::H).0;
            let rv = re.ht_sat_rule(rule, &h, &t, &fb);
            for (name, th) in &sides {
                let f = &th.formulas[i];
                if *name == "mu" && nat.is_some() {
                    // identical to the natural formula by construction; compare once
                    if *f == nat.as_ref().unwrap().formulas[i] {
                        continue;
                    }
                }
                let fv = eval_fol(f, &h, &t, &consts, &assign, World::H).0;
                let differs_from_tau = *f != tau.formulas[i];
                let check = |other: Tv, what: &str, st: &mut Stats| {
                    match (fv, other) {
                        (Tv::U, _) | (_, Tv::U) => st.inc(&format!("unknown_{name}_vs_{what}")),
                        (a, b) if a == b => {
                            st.inc("definite_comparisons");
                            st.inc(&format!("agree_{name}_vs_{what}"));
                            if differs_from_tau {
                                st.inc("definite_comparisons_nonidentical_formula");
                                if has_int_var(f) {
                                    st.inc("definite_comparisons_with_integer_sorted_variables");
                                }
                                st.eval(Some(&format!("{name}|{what}|{rule}|{}|{}", interp_json(&h).compact(), interp_json(&t).compact())));
                            }
                        }
                        (a, b) => {
                            st.inc("definite_comparisons");
                            st.eval(None);
                            st.violation(
                                format!("{name}-vs-{what}"),
                                format!("rule `{rule}`: {name} formula is {a:?}, {what} is {b:?}"),
                                J::obj()
                                    .set("program", J::s(&text))
                                    .set("rule", J::s(rule.to_string()))
                                    .set("formula", J::s(f.to_string()))
                                    .set("tau_star", J::s(tau.formulas[i].to_string()))
                                    .set("H", interp_json(&h))
                                    .set("T", interp_json(&t)),
                            );
                        }
                    }
                };
                check(tv, "tau_star", st);
                check(rv, "ground_reference", st);
            }
        }
    }
    if idx % 101 == 0 {
        let f = tmp.join(format!("c08_{idx}.lp"));
        std::fs::write(&f, &text).unwrap();
        for (with, expect) in [("mu", Some(mu.to_string())), ("natural", nat.as_ref().map(|t| t.to_string()))] {
            if let Ok(out) = run_cli(&cfg.anthem_release(), &["translate", "--with", with, f.to_str().unwrap()], None, &[], None) {
                st.inc("cli_runs");
                let ok = match &expect {
                    Some(e) => out.code == Some(0) && &out.stdout == e,
                    None => out.code != Some(0) && out.code.is_some() && !out.stderr.contains("panicked"),
                };
                if !ok {
                    st.violation(format!("cli-{with}-differs"), format!("`anthem translate --with {with}` disagrees with the library call"), J::obj().set("program", J::s(&text)).set("stdout", J::s(out.stdout)).set("stderr", J::s(out.stderr)));
                }
            }
        }
        let _ = std::fs::remove_file(&f);
    }
}

pub fn run(cfg: &Config) -> i32 {
    let started = Instant::now();
    require_binaries(cfg);
    let tmp = scratch_dir(cfg, "c08");
    let cases = cfg.scaled(cfg.pick(12_000, 1_000_000));
    let budget = Duration::from_secs_f64(cfg.pick(50.0, 540.0) * cfg.scale);
    let stats = parallel(cfg, "main", cases, budget, |idx, r, st| case(cfg, &tmp, idx, r, st));
    let _ = std::fs::remove_dir_all(&tmp);
    finish(
        cfg,
        started,
        Outcome {
            stats,
            level: "exploration",
            rule: "regular-biased and arbitrary generated rules x HT interpretations (finite/co-finite extents, pools with symbols, #inf, #sup); a case is one (translation, rule, H, T) where the natural/mu formula differs syntactically from the tau* formula and both sides are definite; each is compared with tau* and with the ground reference".into(),
            assumptions: vec![
                "same oracle kit and conventions as C01".into(),
                "HT-equivalence is sampled on interpretations, not proved".into(),
            ],
            floor: cfg.pick(5_000, 50_000),
            floor_counter: "definite_comparisons_nonidentical_formula".into(),
            known_replayed: vec![],
            extra: J::obj(),
        },
    )
}
