//! C01: tau* theory has exactly the program's here-and-there and stable models.
//! Oracle: reference ground semantics (kit::aspref) against the three-valued evaluator
//! (kit::eval) on the formulas returned by the real `Program::tau_star()`.
use crate::kit::aspref::{AtomSet, DivConv, Ref, RefStats, fallback_values, interp_of};
use crate::kit::eval::{Assign, Consts, Tv, World, all3, eval_fol};
use crate::kit::generate::{ProgOpts, default_pool, gen_ht, gen_program, small_pool, tuples_over};
use crate::kit::json::J;
use crate::kit::rng::Rng;
use crate::kit::value::{Interp, Value};
#[allow(unused_imports)]
use crate::kit::value::Ext;
use crate::monitors::common::*;
use crate::run::{Config, Outcome, Stats, finish, guarded, parallel, scratch_dir};
use anthem::syntax_tree::asp::mini_gringo as asp;
use anthem::translating::formula_representation::tau_star::TauStar;
use std::collections::BTreeMap;
use std::time::{Duration, Instant};

pub fn div_conv() -> DivConv {
    match std::env::var("AVM_DIV_CONVENTION").as_deref() {
        Ok("floor-all") => DivConv::FloorAll,
        Ok("truncate") => DivConv::Truncate,
        _ => DivConv::Repo,
    }
}

pub fn opts_for(r: &mut Rng, thorough: bool) -> ProgOpts {
    let mut o = ProgOpts::default();
    o.safe = r.chance(3, 5);
    o.term_depth = if thorough && r.chance(1, 3) { 3 } else { 2 };
    if r.chance(1, 4) {
        o.preds = vec![("p".into(), 1), ("q".into(), 2), ("p".into(), 2), ("t".into(), 0), ("hp".into(), 1)];
    }
    if thorough && r.chance(1, 5) {
        o.preds.push(("w".into(), 3));
    }
    o
}

/// rule-level HT comparison of one program on `n_interps` interpretations
pub fn ht_check(prog_text: &str, prog: &asp::Program, theory: &anthem::syntax_tree::fol::sigma_0::Theory, r: &mut Rng, n_interps: usize, st: &mut Stats, class_prefix: &str) {
    let preds = program_preds(prog);
    let mut pool = default_pool();
    if r.chance(1, 2) {
        pool.truncate(8);
    }
    let consts = Consts::new();
    let assign = Assign::new();
    let ph = BTreeMap::new();
    for k in 0..n_interps {
        let (h, t) = gen_ht(r, &preds, &pool, if k % 5 == 4 { 4 } else { 0 });
        let rs = RefStats::default();
        let re = Ref { placeholders: &ph, div: div_conv(), stats: &rs };
        let fb = fallback_values(prog, &[&h, &t], &[]);
        for (i, rule) in prog.rules.iter().enumerate() {
            let (fv, es) = eval_fol(&theory.formulas[i], &h, &t, &consts, &assign, World::H);
            let rv = re.ht_sat_rule(rule, &h, &t, &fb);
            st.add("incomplete_quantifiers", es.incomplete_quants);
            match (fv, rv) {
                (Tv::U, _) => st.inc("unknown_formula_side"),
                (_, Tv::U) => st.inc("unknown_reference_side"),
                (a, b) if a == b => {
                    st.inc("definite_rule_comparisons");
                    st.inc(if a == Tv::T { "agree_satisfied" } else { "agree_violated" });
                    st.eval(Some(&format!("{}|{}|{}", rule, interp_json(&h).compact(), interp_json(&t).compact())));
                }
                (a, b) => {
                    st.inc("definite_rule_comparisons");
                    st.eval(None);
                    st.violation(
                        format!("{class_prefix}ht-mismatch"),
                        format!("rule `{rule}`: tau* formula evaluates to {a:?}, ground semantics says {b:?}"),
                        J::obj()
                            .set("program", J::s(prog_text))
                            .set("rule_index", J::Int(i as i64))
                            .set("rule", J::s(rule.to_string()))
                            .set("formula", J::s(theory.formulas[i].to_string()))
                            .set("H", interp_json(&h))
                            .set("T", interp_json(&t))
                            .set("formula_value", J::s(format!("{a:?}")))
                            .set("reference_value", J::s(format!("{b:?}"))),
                    );
                }
            }
        }
        st.add("reference_instances", rs.instances.get());
        st.add("negative_divisor_instances", rs.neg_divisor.get());
        st.add("interval_values_enumerated", rs.interval_values.get());
        st.add("undefined_arithmetic_events", rs.undefined_arith.get());
        st.add("uncovered_searches", rs.uncovered_searches.get());
    }
}

/// stable models (reduct algorithm) vs equilibrium models of the tau* theory (evaluator)
pub fn stable_check(prog_text: &str, prog: &asp::Program, theory: &anthem::syntax_tree::fol::sigma_0::Theory, r: &mut Rng, st: &mut Stats) {
    let preds = program_preds(prog);
    let heads: Vec<(String, usize)> = prog.head_predicates().into_iter().map(|p| (p.symbol, p.arity)).collect();
    let pool = small_pool();
    // extra facts over any predicate (the statement says "any set of extra facts")
    let mut facts = AtomSet::new();
    for (p, n) in &preds {
        let dens = if heads.contains(&(p.clone(), *n)) { 6 } else { 2 };
        for tp in tuples_over(&pool[..3], *n) {
            if r.below(dens) == 0 && facts.len() < 4 {
                facts.insert((p.clone(), tp));
            }
        }
    }
    let ph = BTreeMap::new();
    let rs = RefStats::default();
    let re = Ref { placeholders: &ph, div: div_conv(), stats: &rs };
    let fb = fallback_values(prog, &[&interp_of(&facts)], &[]);
    let Some(env) = re.envelope(prog, &facts, &fb, 40) else {
        st.inc("stable_envelope_not_finite");
        return;
    };
    let free: Vec<(String, Vec<Value>)> = env.difference(&facts).cloned().collect();
    if free.len() > 6 {
        st.inc("stable_envelope_too_large");
        return;
    }
    let consts = Consts::new();
    let assign = Assign::new();
    let full = |a: &AtomSet| -> Interp {
        let mut i = interp_of(a);
        for (p, n) in &preds {
            i.preds.entry((p.clone(), *n)).or_default();
        }
        i
    };
    // candidate T: subsets of the envelope containing the facts, plus one atom outside
    let mut cands: Vec<AtomSet> = Vec::new();
    for mask in 0u32..(1 << free.len()) {
        let mut c = facts.clone();
        for (i, a) in free.iter().enumerate() {
            if mask >> i & 1 == 1 {
                c.insert(a.clone());
            }
        }
        cands.push(c);
    }
    if let Some((p, n)) = preds.first() {
        let mut c = env.clone();
        c.insert((p.clone(), vec![Value::Sym("zz".into()); *n]));
        cands.push(c);
    }
    for cand in cands {
        let ti = full(&cand);
        let reference = re.is_stable(prog, &ti, &facts, &fb);
        // equilibrium: (T,T) satisfies theory + facts, no H with facts <= H < T does
        let tt = all3(theory.formulas.iter().map(|f| eval_fol(f, &ti, &ti, &consts, &assign, World::H).0));
        let mut eq = tt;
        if eq == Tv::T {
            let opt: Vec<(String, Vec<Value>)> = cand.difference(&facts).cloned().collect();
            if opt.len() > 8 {
                st.inc("stable_too_many_subsets");
                continue;
            }
            'subs: for mask in 0u32..((1u32 << opt.len()) - 1) {
                let mut hset = facts.clone();
                for (i, a) in opt.iter().enumerate() {
                    if mask >> i & 1 == 1 {
                        hset.insert(a.clone());
                    }
                }
                let hi = full(&hset);
                let v = all3(theory.formulas.iter().map(|f| eval_fol(f, &hi, &ti, &consts, &assign, World::H).0));
                match v {
                    Tv::T => {
                        eq = Tv::F;
                        break 'subs;
                    }
                    Tv::U => eq = Tv::U,
                    Tv::F => {}
                }
            }
        }
        match (eq, reference) {
            (Tv::U, _) | (_, Tv::U) => st.inc("stable_unknown"),
            (a, b) if a == b => {
                st.inc("definite_stable_comparisons");
                if a == Tv::T {
                    st.inc("stable_models_confirmed");
                }
                st.eval(Some(&format!("S|{prog_text}|{cand:?}")));
            }
            (a, b) => {
                st.inc("definite_stable_comparisons");
                st.eval(None);
                st.violation(
                    "stable-mismatch",
                    format!("equilibrium model check of tau* says {a:?}, reduct-based stable model check says {b:?}"),
                    J::obj()
                        .set("program", J::s(prog_text))
                        .set("theory", J::s(theory.to_string()))
                        .set("facts", J::s(format!("{facts:?}")))
                        .set("T", interp_json(&ti)),
                );
            }
        }
    }
}

fn case(cfg: &Config, tmp: &std::path::Path, idx: u64, r: &mut Rng, st: &mut Stats) {
    let thorough = cfg.tier == crate::run::Tier::Thorough;
    let o = opts_for(r, thorough);
    let text = gen_program(r, &o);
    let prog = match parse_program(&text) {
        Ok(p) => p,
        Err(e) => {
            st.inc(if e.starts_with("PANIC") { "lost_to_panic" } else { "generator_parse_errors" });
            return;
        }
    };
    let theory = match guarded(|| prog.clone().tau_star()) {
        Ok(t) => t,
        Err(_) => {
            st.inc("lost_to_panic");
            return;
        }
    };
    st.inc("programs");
    st.inc(if o.safe { "programs_safe" } else { "programs_arbitrary" });
    if theory.formulas.len() != prog.rules.len() {
        st.violation(
            "formula-count",
            format!("tau* returned {} formulas for {} rules", theory.formulas.len(), prog.rules.len()),
            J::obj().set("program", J::s(&text)).set("theory", J::s(theory.to_string())),
        );
        return;
    }
    for f in &theory.formulas {
        if !f.free_variables().is_empty() {
            st.violation("not-closed", format!("tau* formula has free variables: {f}"), J::obj().set("program", J::s(&text)));
            return;
        }
    }
    // fresh-name collision actually exercised?
    let fresh = ["I", "J", "K", "Z", "Z1", "V", "V1", "Q", "R", "I1", "J1", "N"];
    if prog.variables().iter().any(|v| fresh.contains(&v.0.as_str())) {
        st.inc("programs_with_colliding_variable_names");
    }
    if idx < 3 {
        st.sample(J::obj().set("program", J::s(&text)).set("tau_star", J::s(theory.to_string())));
    }
    ht_check(&text, &prog, &theory, r, cfg.pick(10, 16), st, "");
    if o.safe && idx % 4 == 0 {
        stable_check(&text, &prog, &theory, r, st);
    }
    // bind the monitored function to the user-visible command
    if idx % 97 == 0 {
        let f = tmp.join(format!("c01_{idx}.lp"));
        std::fs::write(&f, &text).unwrap();
        if let Ok(out) = run_cli(&cfg.anthem_release(), &["translate", "--with", "tau-star", f.to_str().unwrap()], None, &[], None) {
            st.inc("cli_runs");
            if out.code != Some(0) || out.stdout != theory.to_string() {
                st.violation(
                    "cli-differs",
                    "`anthem translate --with tau-star` prints something else than Program::tau_star()",
                    J::obj().set("program", J::s(&text)).set("cli_stdout", J::s(out.stdout)).set("in_process", J::s(theory.to_string())),
                );
            }
        }
        let _ = std::fs::remove_file(&f);
    }
}

/// text-level check: the values of a ground term as written (independent tokenizer and
/// precedence-climbing evaluator, kit::textref) against the tau* theory of the fact `p(TERM).`
fn text_case(_cfg: &Config, idx: u64, r: &mut Rng, st: &mut Stats) {
    fn flat(r: &mut Rng, n: usize) -> String {
        let mut s = String::new();
        let operand = |r: &mut Rng, depth: usize| -> String {
            match r.below(8) {
                0 if depth < 2 => { let k = 1 + r.upto(3); format!("({})", flat(r, k)) }
                1 => format!("-{}", r.range(0, 6)),
                2 => format!("- {}", r.range(1, 6)),
                3 => format!("--{}", r.range(1, 4)),
                _ => format!("{}", r.range(0, 7)),
            }
        };
        s.push_str(&operand(r, n));
        for _ in 0..n {
            let op = ["+", "-", "*", "/", "\\", "..", "-", "*"][r.upto(8)];
            let sp = ["", " "][r.upto(2)];
            s.push_str(&format!("{sp}{op}{sp}{}", operand(r, n)));
        }
        s
    }
    let n_ops = 1 + r.upto(4);
    let text = flat(r, n_ops);
    let Some(expect) = crate::kit::textref::values_of_text(&text, div_conv()) else {
        st.inc("text_terms_outside_fragment");
        return;
    };
    let prog_text = format!("p({text}).");
    let prog = match parse_program(&prog_text) {
        Ok(p) => p,
        Err(_) => {
            st.inc("text_terms_rejected_by_anthem");
            return;
        }
    };
    let Ok(theory) = guarded(|| prog.clone().tau_star()) else {
        st.inc("lost_to_panic");
        return;
    };
    st.inc("text_terms");
    if idx < 2 {
        st.sample(J::obj().set("term_text", J::s(&text)).set("values_by_the_language_definition", J::s(format!("{expect:?}"))).set("tau_star", J::s(theory.to_string())));
    }
    let mk = |vals: &std::collections::BTreeSet<i128>| -> Interp {
        let mut i = Interp::default();
        let mut e = crate::kit::value::Ext::default();
        for v in vals {
            e.exc.insert(vec![Value::Int(*v)]);
        }
        i.preds.insert(("p".into(), 1), e);
        i
    };
    let consts = Consts::new();
    let assign = Assign::new();
    let mut verdicts: Vec<(String, Tv, Tv)> = Vec::new();
    let full = mk(&expect);
    verdicts.push(("exactly the values".into(), eval_fol(&theory.formulas[0], &full, &full, &consts, &assign, World::H).0, Tv::T));
    for drop in expect.iter().take(3) {
        let mut less = expect.clone();
        less.remove(drop);
        let i = mk(&less);
        verdicts.push((format!("without {drop}"), eval_fol(&theory.formulas[0], &i, &i, &consts, &assign, World::H).0, Tv::F));
    }
    for (what, got, want) in verdicts {
        match got {
            Tv::U => st.inc("text_unknown"),
            g if g == want => {
                st.inc("definite_text_comparisons");
                st.eval(Some(&format!("T|{text}|{what}")));
            }
            g => {
                st.inc("definite_text_comparisons");
                st.eval(None);
                st.violation(
                    "text-level-term-value",
                    format!("p({text}). : by the language definition the term has the values {expect:?}; the tau* theory evaluates to {g:?} on the interpretation `{what}`, expected {want:?}"),
                    J::obj().set("program", J::s(&prog_text)).set("parsed_and_printed", J::s(prog.to_string())).set("tau_star", J::s(theory.to_string())),
                );
                return;
            }
        }
    }
}

pub fn run(cfg: &Config) -> i32 {
    let started = Instant::now();
    require_binaries(cfg);
    let tmp = scratch_dir(cfg, "c01");
    let cases = cfg.scaled(cfg.pick(10_000, 1_000_000));
    let budget = Duration::from_secs_f64(cfg.pick(50.0, 540.0) * cfg.scale);
    let stats = parallel(cfg, "main", cases, budget, |idx, r, st| case(cfg, &tmp, idx, r, st));
    let mut stats = stats;
    let s2 = parallel(cfg, "text", cfg.scaled(cfg.pick(20_000, 2_000_000)), budget / 3, |idx, r, st| text_case(cfg, idx, r, st));
    stats.merge(s2);
    let _ = std::fs::remove_dir_all(&tmp);
    finish(
        cfg,
        started,
        Outcome {
            stats,
            level: "exploration",
            rule: "generated mini-gringo programs (safe and arbitrary classes, colliding variable names, all operators) x HT interpretations (finite and co-finite extents); a case is one (rule, H, T) with both the tau* formula and the ground reference definite, distinct by (rule text, H, T); stable-model cases are (program, facts, candidate T)".into(),
            assumptions: vec![
                "division/modulo follow the repository's documented convention (floor, positive divisors only)".into(),
                "interpretations with finite or co-finite extents over a small value pool".into(),
                "the oracle kit (three-valued evaluator, ground reference semantics) is the trusted base".into(),
            ],
            floor: cfg.pick(60_000, 300_000),
            floor_counter: "definite_rule_comparisons".into(),
            known_replayed: vec![],
            extra: J::obj().set("div_convention", J::s(format!("{:?}", div_conv()))),
        },
    )
}
