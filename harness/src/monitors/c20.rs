//! C20: the role of each input file depends only on its extension and argument order.
use crate::kit::json::J;
use crate::kit::rng::Rng;
use crate::kit::tasks::*;
use crate::monitors::common::*;
use crate::run::{Config, Outcome, Stats, finish, parallel, scratch_dir};
use either::Either;
use std::collections::BTreeMap;
use std::path::{Path, PathBuf};
use std::time::{Duration, Instant};

/// the model, written from the statement: walk the arguments in order, expand a directory
/// recursively in file-name order, bucket by extension
#[derive(Default, Debug)]
struct Roles {
    specs: Vec<PathBuf>,
    programs: Vec<PathBuf>,
    ugs: Vec<PathBuf>,
    pos: Vec<PathBuf>,
}

fn walk(p: &Path, out: &mut Vec<PathBuf>) {
    if p.is_dir() {
        let mut entries: Vec<PathBuf> = std::fs::read_dir(p).map(|rd| rd.flatten().map(|e| e.path()).collect()).unwrap_or_default();
        entries.sort_by(|a, b| a.file_name().cmp(&b.file_name()));
        for e in entries {
            walk(&e, out);
        }
    } else if p.is_file() {
        out.push(p.to_path_buf());
    }
}

fn model(args: &[PathBuf]) -> Roles {
    let mut files = Vec::new();
    for a in args {
        walk(a, &mut files);
    }
    let mut r = Roles::default();
    for f in files {
        match f.extension().and_then(|e| e.to_str()) {
            Some("lp") => r.programs.push(f),
            Some("spec") => r.specs.push(f),
            Some("ug") => r.ugs.push(f),
            Some("po") => r.pos.push(f),
            _ => {}
        }
    }
    r
}

fn read_out(d: &Path) -> BTreeMap<String, Vec<u8>> {
    let mut m = BTreeMap::new();
    if let Ok(rd) = std::fs::read_dir(d) {
        for e in rd.flatten() {
            m.insert(e.file_name().to_string_lossy().to_string(), std::fs::read(e.path()).unwrap_or_default());
        }
    }
    m
}

fn run_verify(cfg: &Config, cwd: &Path, equivalence: &str, flags: Flags, files: &[String], out: &Path) -> Option<(Option<i32>, String, BTreeMap<String, Vec<u8>>)> {
    let _ = std::fs::remove_dir_all(out);
    std::fs::create_dir_all(out).ok()?;
    let mut args: Vec<String> = vec!["verify".into(), "--equivalence".into(), equivalence.into(), "--no-proof-search".into(), "--bypass-tightness".into(), "--save-problems".into(), out.to_str()?.into()];
    args.extend(flags.cli_args());
    args.extend(files.iter().cloned());
    let argv: Vec<&str> = args.iter().map(|s| s.as_str()).collect();
    let o = run_cli(&cfg.anthem_release(), &argv, None, &[], Some(cwd)).ok()?;
    Some((o.code, o.stdout, read_out(out)))
}

fn case(cfg: &Config, tmp: &Path, idx: u64, r: &mut Rng, st: &mut Stats) {
    let d = tmp.join(format!("c{idx}"));
    let work = d.join("work");
    let canon = d.join("canon");
    std::fs::create_dir_all(&work).unwrap();
    std::fs::create_dir_all(&canon).unwrap();
    let strong = r.chance(1, 4);
    let (t, _) = gen_external(r, &ExtOpts::default());
    let Either::Left(left) = t.left.clone() else { return };
    // the pool of files of this case: (content, extension)
    let mut pool: Vec<(String, &str)> = vec![(left.clone(), "lp"), (t.right.clone(), "lp")];
    if !strong {
        pool.push((t.ug.clone(), "ug"));
        if r.chance(1, 3) {
            if let Some(spec) = crate::monitors::c02::derive_spec(&t, r) {
                pool.push((spec, "spec"));
            }
        }
        if r.chance(1, 3) {
            pool.push(("lemma[l1]: forall X (X = X).".to_string(), "po"));
        }
        if r.chance(1, 6) {
            // a second user guide / outline that must be ignored
            pool.push((format!("{}\nassumption: #false.", t.ug), "ug"));
        }
    }
    if strong {
        // strong equivalence uses the first two programs whatever else is around
        if r.chance(1, 3) {
            pool.push(("spec: forall X (X = X).".to_string(), "spec"));
        }
        if r.chance(1, 4) {
            pool.push((t.ug.clone(), "ug"));
        }
        if r.chance(1, 4) {
            pool.push(("lemma: forall X (X = X).".to_string(), "po"));
        }
    }
    if r.chance(1, 3) {
        // a third program that must be ignored
        pool.push(("zzz(1).".to_string(), "lp"));
    }
    let mut bare_name: Option<String> = None;
    // files whose whole name is an extension (lp, .lp, po, .ug ...): they have no extension
    if r.chance(1, 5) {
        let bare = ["lp", ".lp", "po", ".po", "ug", ".ug", "spec", ".spec"][r.upto(8)];
        let dir = ["", "d1", "zdir"][r.upto(3)];
        let rel = if dir.is_empty() { bare.to_string() } else { format!("{dir}/{bare}") };
        let p = work.join(&rel);
        std::fs::create_dir_all(p.parent().unwrap()).unwrap();
        if !p.exists() {
            std::fs::write(&p, "this is not an input of anthem (").unwrap();
            bare_name = Some(rel);
        }
    }
    // decoys of other extensions
    for _ in 0..r.upto(3) {
        let ext = ["txt", "LP", "lp~", "bak", "spec2", "", "md"][r.upto(7)];
        pool.push(("this is not an input of anthem (".to_string(), ext));
    }
    // place the files: random names, some inside (nested) directories
    let names = ["a", "b", "m", "z", "0", "A", "_x", "k.1", "k.2", "d1", "d1-x", "d2", "zdir", "0dir+", "d1.sub"];
    let dirs = ["", "", "d1", "d2", "d1/sub", "zdir", "0dir"];
    let mut used: Vec<String> = Vec::new();
    if let Some(b) = &bare_name {
        used.push(b.clone());
    }
    for (content, ext) in &pool {
        loop {
            let dir = dirs[r.upto(dirs.len())];
            let name = names[r.upto(names.len())];
            let rel = if ext.is_empty() { format!("noext-{name}") } else { format!("{name}.{ext}") };
            let rel = if dir.is_empty() { rel } else { format!("{dir}/{rel}") };
            if used.contains(&rel) {
                continue;
            }
            let p = work.join(&rel);
            std::fs::create_dir_all(p.parent().unwrap()).unwrap();
            std::fs::write(&p, content).unwrap();
            used.push(rel);
            break;
        }
    }
    // arguments: top-level entries of `work` in a random order, sometimes the directory itself
    let mut top: Vec<String> = std::fs::read_dir(&work).unwrap().flatten().map(|e| e.file_name().to_string_lossy().to_string()).collect();
    top.sort();
    r.shuffle(&mut top);
    let mut args: Vec<String> = if r.chance(1, 6) { vec![".".to_string()] } else { top.clone() };
    if r.chance(1, 6) && !args.is_empty() {
        // the same path twice, or a file given directly in front of the directory that holds it
        if r.chance(1, 2) {
            let k = r.upto(args.len());
            let dup = args[k].clone();
            let at = r.upto(args.len() + 1);
            args.insert(at, dup);
        } else if let Some(inner) = used.iter().find(|u| u.contains('/')) {
            let dir = inner.split('/').next().unwrap().to_string();
            if let Some(pos) = args.iter().position(|a| *a == dir) {
                args.insert(pos, inner.clone());
            }
        }
        st.inc("layouts_with_a_path_given_twice");
    }
    let roles = model(&args.iter().map(|a| work.join(a)).collect::<Vec<_>>());
    // canonical invocation built from the model's role assignment
    let mut canon_files: Vec<String> = Vec::new();
    let copy = |src: &Path, name: &str| {
        std::fs::copy(src, canon.join(name)).unwrap();
        name.to_string()
    };
    let equivalence = if strong { "strong" } else { "external" };
    if strong {
        if roles.programs.len() < 2 {
            let _ = std::fs::remove_dir_all(&d);
            return;
        }
        canon_files.push(copy(&roles.programs[0], "left.lp"));
        canon_files.push(copy(&roles.programs[1], "right.lp"));
    } else {
        match roles.specs.first() {
            Some(s) => {
                canon_files.push(copy(s, "spec.spec"));
                match roles.programs.first() {
                    Some(p) => canon_files.push(copy(p, "right.lp")),
                    None => {
                        let _ = std::fs::remove_dir_all(&d);
                        return;
                    }
                }
            }
            None => {
                if roles.programs.len() < 2 {
                    let _ = std::fs::remove_dir_all(&d);
                    return;
                }
                canon_files.push(copy(&roles.programs[0], "left.lp"));
                canon_files.push(copy(&roles.programs[1], "right.lp"));
            }
        }
        match roles.ugs.first() {
            Some(u) => canon_files.push(copy(u, "ug.ug")),
            None => {
                let _ = std::fs::remove_dir_all(&d);
                return;
            }
        }
        if let Some(p) = roles.pos.first() {
            canon_files.push(copy(p, "po.po"));
        }
    }
    let flags = Flags::random(r);
    if r.chance(1, 8) {
        // an argument that does not exist (a typo, a dangling link) must be reported, whatever
        // its extension and position: silently dropping it would shift the roles of the others
        let ghost = ["nofile.lp", "raech.spec", "missing.ug", "gone.po", "nodir", "d1/none.lp"][r.upto(6)];
        let mut with_ghost = args.clone();
        with_ghost.insert(r.upto(with_ghost.len() + 1), ghost.to_string());
        if ghost == "gone.po" && r.chance(1, 2) {
            let _ = std::os::unix::fs::symlink(work.join("does-not-exist"), work.join("gone.po"));
        }
        if let Some((code, _so, files)) = run_verify(cfg, &work, equivalence, flags, &with_ghost, &d.join("out_g")) {
            st.inc("cli_runs");
            st.inc("runs_with_a_nonexistent_argument");
            if code == Some(0) || !files.is_empty() {
                st.eval(None);
                st.violation("nonexistent-argument-ignored", format!("the arguments {:?} contain a path that does not exist; anthem exited with {:?} and wrote {} problems", with_ghost, code, files.len()), J::obj().set("arguments", J::strs(&with_ghost)).set("files", J::strs(&used)));
            } else {
                st.eval(Some(&format!("ghost|{}|{:?}", ghost, with_ghost)));
            }
        }
        let _ = std::fs::remove_file(work.join("gone.po"));
    }
    let a = run_verify(cfg, &work, equivalence, flags, &args, &d.join("out_a"));
    let b = run_verify(cfg, &canon, equivalence, flags, &canon_files, &d.join("out_b"));
    st.add("cli_runs", 2);
    let layout = J::obj()
        .set("arguments", J::strs(&args))
        .set("files", J::strs(&used))
        .set("equivalence", J::s(equivalence))
        .set("model_programs", J::Arr(roles.programs.iter().map(|p| J::s(p.strip_prefix(&work).unwrap().to_string_lossy().to_string())).collect()))
        .set("flags", J::s(flags.tag()));
    if idx < 3 {
        st.sample(layout.clone());
    }
    match (a, b) {
        (Some((ca, _sa, fa)), Some((cb, _sb, fb))) => {
            st.inc("layout_comparisons");
            if args.len() == 1 && args[0] == "." {
                st.inc("layouts_via_single_directory");
            }
            if used.iter().any(|u| u.contains('/')) {
                st.inc("layouts_with_nested_directories");
            }
            if ca != cb || fa != fb {
                st.eval(None);
                let class = if fa.keys().collect::<Vec<_>>() != fb.keys().collect::<Vec<_>>() || ca != cb { "roles-differ:problem-set" } else { "roles-differ:problem-content" };
                st.violation(class, format!("problems saved for the arguments {:?} differ from those of the canonical invocation (exit {:?} vs {:?}, {} vs {} files)", args, ca, cb, fa.len(), fb.len()), layout.clone());
            } else {
                if !fa.is_empty() {
                    st.inc("layout_comparisons_with_problems");
                }
                st.eval(Some(&layout.compact()));
            }
        }
        _ => st.inc("cli_failures"),
    }
    // swapping the two programs swaps exactly the roles of axioms and conjectures between directions
    if strong || (!pool.iter().any(|(_, e)| *e == "spec") && r.chance(1, 2)) {
        let swapped: Vec<String> = {
            let mut v = canon_files.clone();
            if v.len() >= 2 && v[0].ends_with(".lp") && v[1].ends_with(".lp") {
                v.swap(0, 1);
            }
            v
        };
        let uni = Flags { direction: Dir::Universal, ..flags };
        let x = run_verify(cfg, &canon, equivalence, uni, &canon_files, &d.join("out_x"));
        let y = run_verify(cfg, &canon, equivalence, uni, &swapped, &d.join("out_y"));
        st.add("cli_runs", 2);
        if let (Some((_, _, fx)), Some((_, _, fy))) = (x, y) {
            // multiset of lines with formula names removed, per direction
            let lines = |m: &BTreeMap<String, Vec<u8>>, prefix: &str| -> Vec<String> {
                let mut v: Vec<String> = Vec::new();
                for (name, content) in m {
                    if name.starts_with(prefix) {
                        for l in String::from_utf8_lossy(content).lines() {
                            // tff(name, role, formula).  ->  role, formula
                            if let Some(i) = l.find(", ") {
                                let rest = &l[i + 2..];
                                // private predicates of the right program are renamed with _p on a clash
                                v.push(rest.to_string());
                            }
                        }
                    }
                }
                v.sort();
                v.dedup();
                v
            };
            let has_private_clash = |m: &BTreeMap<String, Vec<u8>>| m.values().any(|c| String::from_utf8_lossy(c).contains("_p"));
            if !has_private_clash(&fx) && !has_private_clash(&fy) {
                st.inc("swap_comparisons");
                let ok = lines(&fx, "forward") == lines(&fy, "backward") && lines(&fx, "backward") == lines(&fy, "forward");
                if !ok {
                    st.eval(None);
                    st.violation("swap-asymmetry", "forward problems of (A,B) and backward problems of (B,A) do not have the same (role, formula) sets", layout.clone());
                } else {
                    st.eval(Some(&format!("swap|{}", layout.compact())));
                }
            } else {
                st.inc("swap_comparisons_skipped_private_renaming");
            }
        }
    }
    let _ = std::fs::remove_dir_all(&d);
}

pub fn run(cfg: &Config) -> i32 {
    let started = Instant::now();
    require_binaries(cfg);
    let tmp = scratch_dir(cfg, "c20");
    let budget = Duration::from_secs_f64(cfg.pick(35.0, 300.0) * cfg.scale);
    let stats = parallel(cfg, "main", cfg.scaled(cfg.pick(4000, 500_000)), budget, |idx, r, st| case(cfg, &tmp, idx, r, st));
    let _ = std::fs::remove_dir_all(&tmp);
    finish(
        cfg,
        started,
        Outcome {
            stats,
            level: "exploration",
            rule: "generated file sets (two or three programs, user guides, optional specification and proof outline, decoy files of other extensions) placed under random names in random (nested) directories and passed as a random permutation of the top-level entries or as one directory; a model written from the statement assigns the roles; `anthem verify --no-proof-search --save-problems` on the real arguments must save byte-identical problems (and exit alike) as the canonical invocation built from the model's role assignment; swapping the two programs must exchange the (role, formula) sets of the forward and backward problems; a case is a distinct layout".into(),
            assumptions: vec!["directory expansion order is by file name bytes, depth first, as the statement says".into()],
            floor: cfg.pick(800, 5_000),
            floor_counter: "layout_comparisons".into(),
            known_replayed: vec![],
            extra: J::obj(),
        },
    )
}
