//! C19: simplify, eq-break and decomposition flags never change the claim verified.
use crate::kit::eval::{Assign, Consts, Tv};
use crate::kit::generate::{ProgOpts, default_pool, gen_ht, gen_pair_any, gen_program, small_pool};
use crate::kit::json::J;
use crate::kit::rng::Rng;
use crate::kit::tasks::*;
use crate::monitors::c05::ht_as_classical;
use crate::monitors::common::*;
use crate::monitors::sem::*;
use crate::run::{Config, Outcome, Stats, finish, parallel};
use std::time::{Duration, Instant};

/// compares the 8 flag families of one direction on one interpretation
pub fn compare_families(fams: &[(Flags, Vec<ProblemData>)], prefix: &str, i: &crate::kit::value::Interp, consts: &Consts, assign: &Assign, origin: &J, st: &mut Stats) {
    let mut vals: Vec<(Flags, Tv, Option<String>)> = Vec::new();
    for (fl, ps) in fams {
        let (v, which) = family_refutes(ps, prefix, i, consts, assign);
        vals.push((*fl, v, which));
    }
    let definite: Vec<&(Flags, Tv, Option<String>)> = vals.iter().filter(|v| v.1 != Tv::U).collect();
    st.add("family_evaluations", vals.len() as u64);
    st.add("family_evaluations_unknown", (vals.len() - definite.len()) as u64);
    if definite.len() < 2 {
        return;
    }
    let first = definite[0];
    st.inc("definite_family_comparisons");
    if definite.iter().any(|v| v.1 == Tv::T) {
        st.inc("comparisons_with_a_refuting_interpretation");
    }
    match definite.iter().find(|v| v.1 != first.1) {
        None => st.eval(Some(&format!("{}|{prefix}|{}", origin.compact(), interp_json(i).compact()))),
        Some(other) => {
            st.eval(None);
            // which flag differs?
            let mut diff = Vec::new();
            if first.0.sequential != other.0.sequential {
                diff.push("decomposition");
            }
            if first.0.simplify != other.0.simplify {
                diff.push("simplify");
            }
            if first.0.break_equivalences != other.0.break_equivalences {
                diff.push("eq-break");
            }
            // prefer a pair differing in exactly one flag for the class
            let mut class = format!("families-differ:{}", diff.join("+"));
            'outer: for a in &definite {
                for b in &definite {
                    if a.1 != b.1 {
                        let d = (a.0.sequential != b.0.sequential) as u8 + (a.0.simplify != b.0.simplify) as u8 + (a.0.break_equivalences != b.0.break_equivalences) as u8;
                        if d == 1 {
                            class = format!(
                                "families-differ:{}",
                                if a.0.sequential != b.0.sequential { "decomposition" } else if a.0.simplify != b.0.simplify { "simplify" } else { "eq-break" }
                            );
                            break 'outer;
                        }
                    }
                }
            }
            st.violation(
                class,
                format!("{prefix}: family {} refuted = {:?} ({:?}) but family {} refuted = {:?} ({:?})", first.0.tag(), first.1, first.2, other.0.tag(), other.1, other.2),
                origin.clone().set("I", interp_json(i)).set("constants", consts_json(consts)),
            );
        }
    }
}

fn strong_case(cfg: &Config, idx: u64, r: &mut Rng, st: &mut Stats) {
    // arbitrary programs: unsafe rules, large arithmetic
    let mut o = ProgOpts::default();
    o.safe = r.chance(1, 2);
    o.term_depth = if r.chance(1, 2) { 2 } else { 1 };
    o.max_rules = 2;
    o.extreme_numerals = r.chance(1, 6);
    let (mut l, rt) = if r.chance(1, 2) {
        // the pairs C03 uses as well: rewrites and mutants of one program, repeated rules,
        // rules whose body is the negation of their head
        let hostile_names = r.chance(1, 3);
        gen_strong_with(r, StrongOpts { hostile_names, ..Default::default() })
    } else {
        let l = gen_program(r, &o);
        let rt = if r.chance(1, 2) { mutate_program(r, &l) } else { gen_program(r, &o) };
        (l, rt)
    };
    // (the special shapes come often among the first cases: a change that makes the builds slow
    // lets only a few dozen cases through before the time budget)
    if (idx < 200 && r.chance(1, 2)) || r.chance(1, 6) {
        // shapes on which an HT-level rewrite and its classical counterpart differ
        if r.chance(1, 2) {
            let (p, n) = [("p", 0usize), ("q", 1), ("s", 0)][r.upto(3)];
            let atom = if n == 0 { p.to_string() } else { format!("{p}(X)") };
            l.push_str(&format!("\n{atom} :- {} {atom}.", ["not", "not not"][r.upto(2)]));
        } else {
            // an arithmetic term over a variable in a body atom: the antecedent of the rule's
            // formula stays existential after the other simplifications
            let k = r.range(0, 2);
            l.push_str(&format!("\ns :- q(X+{k})."));
            if r.chance(1, 2) {
                l.push_str(&format!("\ns :- q({}).", k + r.range(0, 2)));
            }
        }
    }
    // debugging aid: one given pair instead of the generated one
    let (l, rt) = match (std::env::var("AVM_C19_LEFT"), std::env::var("AVM_C19_RIGHT")) {
        (Ok(a), Ok(b)) => (a, b),
        _ => (l, rt),
    };
    let (Ok(lp), Ok(rp)) = (parse_program(&l), parse_program(&rt)) else { return };
    let mu = r.chance(1, 2);
    let mut fams = Vec::new();
    // every third of the first cases compares one simplifying family with its non-simplifying
    // twin only: two builds instead of eight, so that a change which makes the builds slow still
    // lets enough cases through
    let flag_sets: Vec<Flags> = if idx < 300 && idx % 3 == 0 {
        let sequential = r.chance(1, 2);
        let break_equivalences = r.chance(1, 2);
        vec![Flags { sequential, direction: Dir::Universal, simplify: false, break_equivalences }, Flags { sequential, direction: Dir::Universal, simplify: true, break_equivalences }]
    } else {
        Flags::all_for(Dir::Universal)
    };
    for fl in flag_sets {
        match build_strong(&lp, &rp, mu, fl) {
            Built::Ok { problems, .. } => fams.push((fl, problems)),
            _ => {
                st.inc("lost_to_panic_or_refusal");
                return;
            }
        }
    }
    st.inc("strong_tasks");
    let mut preds = program_preds(&lp);
    for p in program_preds(&rp) {
        if !preds.contains(&p) {
            preds.push(p);
        }
    }
    let origin = J::obj().set("kind", J::s("strong")).set("left", J::s(&l)).set("right", J::s(&rt)).set("mu", J::Bool(mu));
    if idx < 2 {
        st.sample(origin.clone());
    }
    let pool = if r.chance(1, 2) { small_pool() } else { default_pool() };
    let case_started = Instant::now();
    for k in 0..cfg.pick(8, 12) {
        if case_started.elapsed() > Duration::from_millis(cfg.pick(1500, 6000)) {
            st.inc("strong_cases_cut_short_by_case_time_cap");
            break;
        }
        let (h, t) = if k % 6 == 5 { gen_pair_any(r, &preds, &pool) } else { gen_ht(r, &preds, &pool, 0) };
        let j = ht_as_classical(&h, &t);
        for prefix in ["forward", "backward"] {
            compare_families(&fams, prefix, &j, &Consts::new(), &Assign::new(), &origin, st);
        }
    }
}

fn external_case(cfg: &Config, idx: u64, r: &mut Rng, st: &mut Stats) {
    let o = ExtOpts::default();
    let (t, _sig) = gen_external(r, &o);
    let Ok(parsed) = parse_ext(&t) else { return };
    let mut fams = Vec::new();
    for fl in Flags::all_for(Dir::Universal) {
        match build_external(&parsed, true, fl) {
            Built::Ok { problems, .. } => fams.push((fl, problems)),
            Built::Refused(_) => {
                st.inc("external_refused");
                return;
            }
            Built::Panic(_) => {
                st.inc("lost_to_panic_or_refusal");
                return;
            }
        }
    }
    st.inc("external_tasks");
    let origin = crate::monitors::c09::origin_ext(&t, Flags::all_for(Dir::Universal)[0]);
    if idx < 2 {
        st.sample(origin.clone());
    }
    let all: Vec<ProblemData> = fams.iter().flat_map(|(_, p)| p.iter().cloned()).collect();
    let preds = problem_preds(&all);
    let pool = small_pool();
    for _ in 0..cfg.pick(10, 16) {
        let (_, i) = gen_ht(r, &preds, &pool, 0);
        let consts = problem_consts(&all, r, &pool);
        let assign = problem_assign(&all, r, &pool);
        for prefix in ["forward", "backward"] {
            compare_families(&fams, prefix, &i, &consts, &assign, &origin, st);
        }
    }
}

pub fn run(cfg: &Config) -> i32 {
    let started = Instant::now();
    let budget = Duration::from_secs_f64(cfg.pick(13.0, 200.0) * cfg.scale);
    let t0 = Instant::now();
    let mut stats = parallel(cfg, "strong", cfg.scaled(cfg.pick(1000, 1_000_000)), budget, |idx, r, st| strong_case(cfg, idx, r, st));
    stats.add("wall_ms_strong", t0.elapsed().as_millis() as u64);
    let t1 = Instant::now();
    let s2 = parallel(cfg, "external", cfg.scaled(cfg.pick(4000, 1_000_000)), budget, |idx, r, st| external_case(cfg, idx, r, st));
    stats.merge(s2);
    stats.add("wall_ms_external", t1.elapsed().as_millis() as u64);
    let t2 = Instant::now();
    // model-guided interpretations for external tasks (stable models of either side), see C02
    let s3 = parallel(cfg, "external_guided", cfg.scaled(cfg.pick(3000, 1_000_000)), budget, |idx, r, st| crate::monitors::c02::guided_flag_case(cfg, idx, r, st));
    stats.merge(s3);
    stats.add("wall_ms_external_guided", t2.elapsed().as_millis() as u64);
    finish(
        cfg,
        started,
        Outcome {
            stats,
            level: "exploration",
            rule: "strong-equivalence tasks over arbitrary programs (unsafe rules, extreme numerals) and external-equivalence tasks (tightness bypassed), each built under all 8 combinations of decomposition x simplify x eq-break; for every sampled interpretation (random, from HT pairs, and guided by stable models of either side) 'some problem of the direction has all axioms true and the conjecture false' must have the same definite value in all 8 families; a non-trivial case is a (task, direction, interpretation) with at least two definite families".into(),
            assumptions: vec!["evaluator as in C01; no reference semantics of programs is used for the verdict".into()],
            floor: cfg.pick(30_000, 200_000),
            floor_counter: "definite_family_comparisons".into(),
            known_replayed: vec![],
            extra: J::obj(),
        },
    )
}
