//! shared semantic helpers: does an interpretation refute a problem / a family of problems
use crate::kit::eval::{Assign, Consts, Tv, World, all3, eval_fol};
use crate::kit::generate::value_of_sort;
use crate::kit::rng::Rng;
use crate::kit::tasks::ProblemData;
use crate::kit::value::{Interp, Value};
use crate::monitors::common::sort_of;
use std::collections::BTreeSet;

/// all axioms true and the conjecture false (three-valued)
pub fn refutes(p: &ProblemData, i: &Interp, consts: &Consts, assign: &Assign) -> Tv {
    let ax = all3(p.axioms().map(|f| eval_fol(f, i, i, consts, assign, World::C).0));
    if ax == Tv::F {
        return Tv::F;
    }
    // a problem has exactly one conjecture; several are treated as "all must hold"
    let cj = all3(p.conjectures().map(|f| eval_fol(f, i, i, consts, assign, World::C).0));
    ax.and(cj.not())
}

/// some problem of the family whose name starts with `prefix` is refuted
pub fn family_refutes(ps: &[ProblemData], prefix: &str, i: &Interp, consts: &Consts, assign: &Assign) -> (Tv, Option<String>) {
    let mut r = Tv::F;
    for p in ps.iter().filter(|p| p.name.starts_with(prefix)) {
        match refutes(p, i, consts, assign) {
            Tv::T => return (Tv::T, Some(p.name.clone())),
            Tv::U => r = Tv::U,
            Tv::F => {}
        }
    }
    (r, None)
}

pub fn problem_preds(ps: &[ProblemData]) -> Vec<(String, usize)> {
    let mut s: BTreeSet<(String, usize)> = BTreeSet::new();
    for p in ps {
        for (_, _, f) in &p.formulas {
            for q in f.predicates() {
                s.insert((q.symbol, q.arity));
            }
        }
    }
    s.into_iter().collect()
}

/// random values for every function constant of the problems
pub fn problem_consts(ps: &[ProblemData], r: &mut Rng, pool: &[Value]) -> Consts {
    let mut c = Consts::new();
    for p in ps {
        for (_, _, f) in &p.formulas {
            for fc in f.function_constants() {
                let s = sort_of(fc.sort);
                c.entry((fc.name.clone(), s)).or_insert_with(|| value_of_sort(r, pool, s));
            }
        }
    }
    c
}

/// random values for the free variables of the problems' formulas
pub fn problem_assign(ps: &[ProblemData], r: &mut Rng, pool: &[Value]) -> Assign {
    let mut a = Assign::new();
    for p in ps {
        for (_, _, f) in &p.formulas {
            for v in f.free_variables() {
                let s = sort_of(v.sort);
                a.entry((v.name.clone(), s)).or_insert_with(|| value_of_sort(r, pool, s));
            }
        }
    }
    a
}
