//! C04: completion of a tight program's tau* theory has exactly the program's stable models;
//! every non-input predicate gets a completed definition; non-completable theories are refused.
use crate::kit::aspref::{AtomSet, Ref, RefStats, atoms_of, fallback_values, interp_of};
use crate::kit::eval::{Assign, Consts, Tv, World, all3, eval_fol};
use crate::kit::generate::{ProgOpts, gen_ht, gen_program, small_pool};
use crate::kit::json::J;
use crate::kit::rng::Rng;
use crate::kit::value::Interp;
use crate::monitors::c01::div_conv;
use crate::monitors::common::*;
use crate::run::{Config, Outcome, Stats, finish, guarded, parallel, scratch_dir};
use anthem::analyzing::tightness::Tightness;
use anthem::syntax_tree::fol::sigma_0 as fol;
use anthem::translating::classical_reduction::completion::Completion;
use anthem::translating::formula_representation::tau_star::TauStar;
use indexmap::IndexSet;
use std::collections::BTreeMap;
use std::time::{Duration, Instant};

/// `[forall vars] (p(..) <-> body)`: the predicate whose completed definition this is
pub fn definition_head(f: &fol::Formula) -> Option<(String, usize)> {
    match f {
        fol::Formula::QuantifiedFormula { quantification, formula } if quantification.quantifier == fol::Quantifier::Forall => definition_head(formula),
        fol::Formula::BinaryFormula { connective: fol::BinaryConnective::Equivalence, lhs, .. } => match &**lhs {
            fol::Formula::AtomicFormula(fol::AtomicFormula::Atom(a)) => Some((a.predicate_symbol.clone(), a.terms.len())),
            _ => None,
        },
        _ => None,
    }
}

fn semantic_case(cfg: &Config, tmp: &std::path::Path, idx: u64, r: &mut Rng, st: &mut Stats) {
    let mut o = ProgOpts::default();
    o.safe = true;
    o.max_rules = 4;
    if r.chance(1, 4) {
        o.preds = vec![("p".into(), 1), ("q".into(), 1), ("p".into(), 2), ("s".into(), 0), ("u".into(), 1)];
    }
    let mut text = gen_program(r, &o);
    if r.chance(1, 12) {
        // a cycle that exists only between ground instances of one predicate
        text = format!("{}\n{text}", crate::kit::generate::gen_ground_cycle(r, &o));
    }
    let Ok(prog) = parse_program(&text) else {
        st.inc("generator_parse_errors");
        return;
    };
    let tight = match guarded(|| prog.is_tight()) {
        Ok(t) => t,
        Err(_) => {
            st.inc("lost_to_panic");
            return;
        }
    };
    if !tight {
        st.inc("programs_not_tight_skipped");
        return;
    }
    let preds = program_preds(&prog);
    let heads: Vec<(String, usize)> = prog.head_predicates().into_iter().map(|p| (p.symbol, p.arity)).collect();
    let mut inputs = IndexSet::new();
    let mut input_preds: Vec<(String, usize)> = Vec::new();
    for (p, a) in &preds {
        if !heads.contains(&(p.clone(), *a)) && r.chance(2, 3) {
            inputs.insert(fol::Predicate { symbol: p.clone(), arity: *a });
            input_preds.push((p.clone(), *a));
        }
    }
    let theory = match guarded(|| prog.clone().tau_star()) {
        Ok(t) => t,
        Err(_) => {
            st.inc("lost_to_panic");
            return;
        }
    };
    let comp = match guarded(|| theory.clone().completion(inputs.clone())) {
        Ok(Some(c)) => c,
        Ok(None) => {
            st.eval(None);
            st.violation("completion-refuses-tau-star", "completion returned None for the tau* theory of a tight program", J::obj().set("program", J::s(&text)));
            return;
        }
        Err(_) => {
            st.inc("lost_to_panic");
            return;
        }
    };
    st.inc("tight_programs");
    if idx < 3 {
        st.sample(J::obj().set("program", J::s(&text)).set("inputs", J::s(format!("{input_preds:?}"))).set("completion", J::s(comp.to_string())));
    }
    // structural: exactly one completed definition per non-input predicate of the theory
    let mut defs: BTreeMap<(String, usize), u32> = BTreeMap::new();
    for f in &comp.formulas {
        if let Some(h) = definition_head(f) {
            *defs.entry(h).or_insert(0) += 1;
        }
        if !f.free_variables().is_empty() {
            st.violation("completion-not-closed", format!("completed formula has free variables: {f}"), J::obj().set("program", J::s(&text)));
        }
    }
    for p in theory.predicates() {
        let key = (p.symbol.clone(), p.arity);
        let n = defs.get(&key).cloned().unwrap_or(0);
        let is_input = input_preds.contains(&key);
        st.inc("definition_count_checks");
        if (!is_input && n != 1) || (is_input && n != 0) {
            st.eval(None);
            st.violation(
                "definition-count",
                format!("predicate {}/{} (input: {is_input}) has {n} completed definitions", p.symbol, p.arity),
                J::obj().set("program", J::s(&text)).set("inputs", J::s(format!("{input_preds:?}"))).set("completion", J::s(comp.to_string())),
            );
            return;
        }
    }
    // semantic
    let consts = Consts::new();
    let assign = Assign::new();
    let ph = BTreeMap::new();
    let pool = small_pool();
    let rounds = cfg.pick(10, 16);
    for round in 0..rounds {
        let (_h, mut t) = gen_ht(r, &preds, &pool, 0);
        let facts_of = |t: &Interp| -> AtomSet { atoms_of(t).into_iter().filter(|(p, tp)| input_preds.contains(&(p.clone(), tp.len()))).collect() };
        let rs = RefStats::default();
        let re = Ref { placeholders: &ph, div: div_conv(), stats: &rs };
        let full = |a: &AtomSet| -> Interp {
            let mut i = interp_of(a);
            for (p, n) in &preds {
                i.preds.entry((p.clone(), *n)).or_default();
            }
            i
        };
        if round % 2 == 1 {
            // drive T towards a fixpoint of T := LM(P^T + input facts) so that stable models occur
            let facts = facts_of(&t);
            for _ in 0..3 {
                let fb = fallback_values(&prog, &[&t], &[]);
                let (m, _) = re.reduct_lm(&prog, &t, &facts, &fb);
                t = full(&m);
            }
        }
        let facts = facts_of(&t);
        let fb = fallback_values(&prog, &[&t], &[]);
        let reference = re.is_stable(&prog, &t, &facts, &fb);
        let formula = all3(comp.formulas.iter().map(|f| eval_fol(f, &t, &t, &consts, &assign, World::C).0));
        match (formula, reference) {
            (Tv::U, _) | (_, Tv::U) => st.inc("unknown"),
            (a, b) if a == b => {
                st.inc("definite_comparisons");
                st.inc(if a == Tv::T { "agree_stable" } else { "agree_not_stable" });
                st.eval(Some(&format!("{text}|{input_preds:?}|{}", interp_json(&t).compact())));
            }
            (a, b) => {
                st.inc("definite_comparisons");
                st.eval(None);
                st.violation(
                    "completion-vs-stable",
                    format!("completion evaluates to {a:?}, reduct-based stable model check says {b:?}"),
                    J::obj()
                        .set("program", J::s(&text))
                        .set("inputs", J::s(format!("{input_preds:?}")))
                        .set("completion", J::s(comp.to_string()))
                        .set("I", interp_json(&t)),
                );
            }
        }
    }
    if idx % 103 == 0 {
        // CLI takes a theory and completes it with no inputs
        let f = tmp.join(format!("c04_{idx}.spec"));
        std::fs::write(&f, theory.to_string()).unwrap();
        let expect = guarded(|| theory.clone().completion(IndexSet::new())).ok().flatten();
        if let (Ok(out), Some(e)) = (run_cli(&cfg.anthem_release(), &["translate", "--with", "completion", f.to_str().unwrap()], None, &[], None), expect) {
            st.inc("cli_runs");
            if out.code != Some(0) || out.stdout != e.to_string() {
                st.violation("cli-differs", "`anthem translate --with completion` disagrees with Theory::completion", J::obj().set("theory", J::s(theory.to_string())).set("stdout", J::s(out.stdout)).set("stderr", J::s(out.stderr)));
            }
        }
        let _ = std::fs::remove_file(&f);
    }
}

/// mutate the tau* theory of a program into one of the four non-completable classes
fn refusal_case(cfg: &Config, tmp: &std::path::Path, idx: u64, r: &mut Rng, st: &mut Stats) {
    let mut o = ProgOpts::default();
    o.safe = true;
    o.allow_constraint = false;
    o.preds = vec![("p".into(), 1), ("r".into(), 2), ("q".into(), 1), ("w".into(), 3)];
    let text = gen_program(r, &o);
    let Ok(prog) = parse_program(&text) else { return };
    let Ok(mut theory) = guarded(|| prog.clone().tau_star()) else { return };
    // locate a formula `forall .. (body -> p(V..))`
    let k = r.upto(theory.formulas.len());
    let fol::Formula::QuantifiedFormula { quantification, formula } = theory.formulas[k].clone() else {
        st.inc("refusal_shape_skipped");
        return;
    };
    let fol::Formula::BinaryFormula { connective: fol::BinaryConnective::Implication, lhs, rhs } = *formula else {
        st.inc("refusal_shape_skipped");
        return;
    };
    let fol::Formula::AtomicFormula(fol::AtomicFormula::Atom(atom)) = *rhs.clone() else {
        st.inc("refusal_shape_skipped");
        return;
    };
    let rebuild = |q: Option<fol::Quantification>, lhs: fol::Formula, atom: fol::Atom| -> fol::Formula {
        let inner = fol::Formula::BinaryFormula {
            connective: fol::BinaryConnective::Implication,
            lhs: Box::new(lhs),
            rhs: Box::new(fol::Formula::AtomicFormula(fol::AtomicFormula::Atom(atom))),
        };
        match q {
            Some(q) => fol::Formula::QuantifiedFormula { quantification: q, formula: Box::new(inner) },
            None => inner,
        }
    };
    let class = r.below(4);
    let class_name;
    match class {
        0 => {
            class_name = "non-variable-head-argument";
            let mut a = atom.clone();
            let pos = r.upto(a.terms.len());
            let mut quantification = quantification;
            a.terms[pos] = match r.below(4) {
                0 => fol::GeneralTerm::IntegerTerm(fol::IntegerTerm::Numeral(r.range(0, 5) as isize)),
                1 => fol::GeneralTerm::SymbolicTerm(fol::SymbolicTerm::Symbol("a".into())),
                _ => {
                    // a compound integer term over one (fresh, universally quantified) variable
                    let n = fol::IntegerTerm::Variable("N9".into());
                    quantification.variables.push(fol::Variable { name: "N9".into(), sort: fol::Sort::Integer });
                    let two = fol::IntegerTerm::Numeral(r.range(1, 3) as isize);
                    fol::GeneralTerm::IntegerTerm(match r.below(4) {
                        0 => fol::IntegerTerm::BinaryOperation { op: fol::BinaryOperator::Multiply, lhs: Box::new(n), rhs: Box::new(two) },
                        1 => fol::IntegerTerm::BinaryOperation { op: fol::BinaryOperator::Add, lhs: Box::new(n), rhs: Box::new(two) },
                        2 => fol::IntegerTerm::UnaryOperation { op: fol::UnaryOperator::Negative, arg: Box::new(n) },
                        _ => fol::IntegerTerm::BinaryOperation { op: fol::BinaryOperator::Subtract, lhs: Box::new(n.clone()), rhs: Box::new(n) },
                    })
                }
            };
            theory.formulas[k] = rebuild(Some(quantification), *lhs, a);
        }
        1 => {
            if atom.terms.len() < 2 {
                st.inc("refusal_shape_skipped");
                return;
            }
            class_name = "repeated-head-variable";
            let mut a = atom.clone();
            let n = a.terms.len();
            a.terms[n - 1] = a.terms[0].clone();
            theory.formulas[k] = rebuild(Some(quantification), *lhs, a);
        }
        2 => {
            class_name = "mismatched-heads";
            // a second partial definition of the same predicate with other variable names, or
            // with the same names in another order (p(V1,V2) next to p(V2,V1))
            let mut vars: Vec<String> = (0..atom.terms.len()).map(|i| format!("W{}", i + 1)).collect();
            if atom.terms.len() >= 2 && r.chance(1, 2) {
                let own: Vec<String> = atom.terms.iter().filter_map(|t| match t { fol::GeneralTerm::Variable(v) => Some(v.clone()), _ => None }).collect();
                if own.len() == atom.terms.len() {
                    vars = own;
                    vars.rotate_left(1);
                }
            }
            let a = fol::Atom { predicate_symbol: atom.predicate_symbol.clone(), terms: vars.iter().map(|v| fol::GeneralTerm::Variable(v.clone())).collect() };
            let body: fol::Formula = format!("aux({})", vars.join(", ")).parse().unwrap();
            let q = fol::Quantification { quantifier: fol::Quantifier::Forall, variables: vars.iter().map(|v| fol::Variable { name: v.clone(), sort: fol::Sort::General }).collect() };
            theory.formulas.push(rebuild(Some(q), body, a));
        }
        _ => {
            class_name = "free-variable";
            let extra: fol::Formula = "aux(Free)".parse().unwrap();
            let lhs2 = fol::Formula::BinaryFormula { connective: fol::BinaryConnective::Conjunction, lhs, rhs: Box::new(extra) };
            theory.formulas[k] = rebuild(Some(quantification), lhs2, atom.clone());
            // the monitor's own check that the class really applies
            let (_, _, free) = crate::kit::ir::convert(&theory.formulas[k]);
            if free.is_empty() {
                st.inc("refusal_shape_skipped");
                return;
            }
        }
    }
    st.inc(&format!("refusal_cases_{class_name}"));
    st.inc("refusal_cases");
    st.eval(Some(&format!("R|{class_name}|{theory}")));
    if idx < 2 {
        st.sample(J::obj().set("non_completable_class", J::s(class_name)).set("theory", J::s(theory.to_string())));
    }
    match guarded(|| theory.clone().completion(IndexSet::new())) {
        Ok(None) => st.inc("refusals_observed"),
        Ok(Some(c)) => st.violation(
            format!("not-refused-{class_name}"),
            format!("completion accepted a theory with a {class_name}"),
            J::obj().set("theory", J::s(theory.to_string())).set("completion", J::s(c.to_string())),
        ),
        Err(p) => st.violation(format!("refusal-panic-{class_name}"), format!("completion panicked: {p}"), J::obj().set("theory", J::s(theory.to_string()))),
    }
    if idx % 23 == 0 {
        let f = tmp.join(format!("c04r_{idx}.spec"));
        std::fs::write(&f, theory.to_string()).unwrap();
        if let Ok(out) = run_cli(&cfg.anthem_release(), &["translate", "--with", "completion", f.to_str().unwrap()], None, &[], None) {
            st.inc("cli_refusal_runs");
            if out.code == Some(0) || out.code.is_none() || out.stderr.contains("panicked") || out.stderr.trim().is_empty() {
                st.violation(format!("cli-not-refused-{class_name}"), "`anthem translate --with completion` did not refuse a non-completable theory with an error", J::obj().set("theory", J::s(theory.to_string())).set("stdout", J::s(out.stdout)).set("stderr", J::s(out.stderr)));
            }
        }
        let _ = std::fs::remove_file(&f);
    }
}

pub fn run(cfg: &Config) -> i32 {
    let started = Instant::now();
    require_binaries(cfg);
    let tmp = scratch_dir(cfg, "c04");
    let budget = Duration::from_secs_f64(cfg.pick(45.0, 480.0) * cfg.scale);
    let mut stats = parallel(cfg, "semantic", cfg.scaled(cfg.pick(80_000, 2_000_000)), budget, |idx, r, st| semantic_case(cfg, &tmp, idx, r, st));
    let s2 = parallel(cfg, "refusal", cfg.scaled(cfg.pick(1500, 20_000)), Duration::from_secs(60), |idx, r, st| refusal_case(cfg, &tmp, idx, r, st));
    stats.merge(s2);
    let _ = std::fs::remove_dir_all(&tmp);
    finish(
        cfg,
        started,
        Outcome {
            stats,
            level: "exploration",
            rule: "generated safe programs that anthem reports tight x input sets (subsets of body-only predicates) x finite interpretations over the program's vocabulary (half of them driven to fixpoints of the reduct so that stable models occur); a case is one (program, inputs, I) with classical evaluation of the completion and the reduct-based stable-model check both definite; plus mutated tau* theories of the four non-completable classes".into(),
            assumptions: vec![
                "same oracle kit and conventions as C01; interpretations restricted to the program's vocabulary".into(),
                "tightness is anthem's own verdict, as the property states (C11 checks that verdict)".into(),
            ],
            floor: cfg.pick(100_000, 500_000),
            floor_counter: "definite_comparisons".into(),
            known_replayed: vec![],
            extra: J::obj(),
        },
    )
}
