//! helpers shared by the monitors
use crate::kit::eval::{Assign, Consts};
use crate::kit::ir::Sort;
use crate::kit::json::J;
use crate::kit::value::{Interp, Value};
use crate::run::{Config, guarded};
use anthem::syntax_tree::{asp::mini_gringo as asp, fol::sigma_0 as fol};
use std::io::Write;
use std::path::Path;
use std::process::{Command, Stdio};

pub fn parse_program(text: &str) -> Result<asp::Program, String> {
    match guarded(|| text.parse::<asp::Program>()) {
        Ok(Ok(p)) => Ok(p),
        Ok(Err(e)) => Err(format!("parse error: {e}")),
        Err(p) => Err(format!("PANIC: {p}")),
    }
}

pub fn parse_formula(text: &str) -> Result<fol::Formula, String> {
    match guarded(|| text.parse::<fol::Formula>()) {
        Ok(Ok(p)) => Ok(p),
        Ok(Err(e)) => Err(format!("parse error: {e}")),
        Err(p) => Err(format!("PANIC: {p}")),
    }
}

pub fn program_preds(p: &asp::Program) -> Vec<(String, usize)> {
    p.predicates().into_iter().map(|p| (p.symbol, p.arity)).collect()
}

pub fn formula_preds(f: &fol::Formula) -> Vec<(String, usize)> {
    f.predicates().into_iter().map(|p| (p.symbol, p.arity)).collect()
}

pub fn sort_of(s: fol::Sort) -> Sort {
    match s {
        fol::Sort::General => Sort::G,
        fol::Sort::Integer => Sort::I,
        fol::Sort::Symbol => Sort::S,
    }
}

pub fn value_json(v: &Value) -> J {
    J::s(v.show())
}

pub fn interp_json(i: &Interp) -> J {
    let mut o = J::obj();
    for ((p, n), e) in &i.preds {
        let tuples: Vec<J> = e
            .exc
            .iter()
            .map(|t| J::s(format!("({})", t.iter().map(|v| v.show()).collect::<Vec<_>>().join(","))))
            .collect();
        o.put(
            format!("{p}/{n}"),
            J::obj()
                .set(if e.default { "all_except" } else { "exactly" }, J::Arr(tuples)),
        );
    }
    o
}

pub fn consts_json(c: &Consts) -> J {
    let mut o = J::obj();
    for ((n, s), v) in c {
        o.put(format!("{n}${}", match s { Sort::G => "g", Sort::I => "i", Sort::S => "s" }), value_json(v));
    }
    o
}

pub fn assign_json(a: &Assign) -> J {
    consts_json(a)
}

pub struct CliOut {
    pub code: Option<i32>,
    pub stdout: String,
    pub stderr: String,
    pub stdout_bytes: Vec<u8>,
}

/// run an anthem binary with `args`, optional stdin, optional environment/cwd
pub fn run_cli(bin: &Path, args: &[&str], stdin: Option<&[u8]>, env: &[(&str, &str)], cwd: Option<&Path>) -> std::io::Result<CliOut> {
    let mut c = Command::new(bin);
    c.args(args).stdin(if stdin.is_some() { Stdio::piped() } else { Stdio::null() }).stdout(Stdio::piped()).stderr(Stdio::piped());
    for (k, v) in env {
        c.env(k, v);
    }
    if let Some(d) = cwd {
        c.current_dir(d);
    }
    let mut child = c.spawn()?;
    if let Some(data) = stdin {
        let mut si = child.stdin.take().unwrap();
        let _ = si.write_all(data);
    }
    let out = child.wait_with_output()?;
    Ok(CliOut {
        code: out.status.code(),
        stdout: String::from_utf8_lossy(&out.stdout).to_string(),
        stderr: String::from_utf8_lossy(&out.stderr).to_string(),
        stdout_bytes: out.stdout,
    })
}

pub fn require_binaries(cfg: &Config) {
    for b in [cfg.anthem_release(), cfg.anthem_dev()] {
        if !b.exists() {
            eprintln!("[avm] missing anthem binary {} (bin/check builds it)", b.display());
            std::process::exit(2);
        }
    }
}
