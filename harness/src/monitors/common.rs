//! helpers shared by the monitors
use crate::kit::eval::{Assign, Consts};
use crate::kit::ir::Sort;
use crate::kit::json::J;
use crate::kit::value::{Interp, Value};
use crate::run::{Config, guarded};
use anthem::syntax_tree::{asp::mini_gringo as asp, fol::sigma_0 as fol};
use std::io::Write;
use std::path::Path;
use std::process::{Command, Stdio};

pub fn parse_program(text: &str) -> Result<asp::Program, String> {
    match guarded(|| text.parse::<asp::Program>()) {
        Ok(Ok(p)) => Ok(p),
        Ok(Err(e)) => Err(format!("parse error: {e}")),
        Err(p) => Err(format!("PANIC: {p}")),
    }
}

pub fn parse_formula(text: &str) -> Result<fol::Formula, String> {
    match guarded(|| text.parse::<fol::Formula>()) {
        Ok(Ok(p)) => Ok(p),
        Ok(Err(e)) => Err(format!("parse error: {e}")),
        Err(p) => Err(format!("PANIC: {p}")),
    }
}

pub fn program_preds(p: &asp::Program) -> Vec<(String, usize)> {
    p.predicates().into_iter().map(|p| (p.symbol, p.arity)).collect()
}

pub fn formula_preds(f: &fol::Formula) -> Vec<(String, usize)> {
    f.predicates().into_iter().map(|p| (p.symbol, p.arity)).collect()
}

pub fn sort_of(s: fol::Sort) -> Sort {
    match s {
        fol::Sort::General => Sort::G,
        fol::Sort::Integer => Sort::I,
        fol::Sort::Symbol => Sort::S,
    }
}

pub fn value_json(v: &Value) -> J {
    J::s(v.show())
}

pub fn interp_json(i: &Interp) -> J {
    let mut o = J::obj();
    for ((p, n), e) in &i.preds {
        let tuples: Vec<J> = e
            .exc
            .iter()
            .map(|t| J::s(format!("({})", t.iter().map(|v| v.show()).collect::<Vec<_>>().join(","))))
            .collect();
        o.put(
            format!("{p}/{n}"),
            J::obj()
                .set(if e.default { "all_except" } else { "exactly" }, J::Arr(tuples)),
        );
    }
    o
}

pub fn consts_json(c: &Consts) -> J {
    let mut o = J::obj();
    for ((n, s), v) in c {
        o.put(format!("{n}${}", match s { Sort::G => "g", Sort::I => "i", Sort::S => "s" }), value_json(v));
    }
    o
}

pub fn assign_json(a: &Assign) -> J {
    consts_json(a)
}

pub struct CliOut {
    pub code: Option<i32>,
    pub stdout: String,
    pub stderr: String,
    pub stdout_bytes: Vec<u8>,
}

/// run an anthem binary with `args`, optional stdin, optional environment/cwd; a generous
/// wall-clock watchdog (AVM_CLI_TIMEOUT_S, default 60 s) kills a child that does not finish and
/// reports it as an io error (inconclusive for the caller, never a verdict)
pub fn run_cli(bin: &Path, args: &[&str], stdin: Option<&[u8]>, env: &[(&str, &str)], cwd: Option<&Path>) -> std::io::Result<CliOut> {
    let mut c = Command::new(bin);
    c.args(args).stdin(if stdin.is_some() { Stdio::piped() } else { Stdio::null() }).stdout(Stdio::piped()).stderr(Stdio::piped());
    for (k, v) in env {
        c.env(k, v);
    }
    if let Some(d) = cwd {
        c.current_dir(d);
    }
    let mut child = c.spawn()?;
    let pid = child.id();
    crate::run::child_started(pid);
    struct Done(u32);
    impl Drop for Done {
        fn drop(&mut self) {
            crate::run::child_finished(self.0);
        }
    }
    let _done = Done(pid);
    if let Some(data) = stdin {
        let mut si = child.stdin.take().unwrap();
        let _ = si.write_all(data);
    }
    let mut so = child.stdout.take().unwrap();
    let mut se = child.stderr.take().unwrap();
    let t1 = std::thread::spawn(move || {
        let mut b = Vec::new();
        let _ = std::io::Read::read_to_end(&mut so, &mut b);
        b
    });
    let t2 = std::thread::spawn(move || {
        let mut b = Vec::new();
        let _ = std::io::Read::read_to_end(&mut se, &mut b);
        b
    });
    let limit = std::env::var("AVM_CLI_TIMEOUT_S").ok().and_then(|s| s.parse::<u64>().ok()).unwrap_or(60);
    let started = std::time::Instant::now();
    let status = loop {
        match child.try_wait()? {
            Some(s) => break s,
            None => {
                if started.elapsed() > std::time::Duration::from_secs(limit) {
                    let _ = child.kill();
                    let _ = child.wait();
                    return Err(std::io::Error::new(std::io::ErrorKind::TimedOut, "anthem did not finish within the wall-clock watchdog"));
                }
                std::thread::sleep(std::time::Duration::from_millis(1));
            }
        }
    };
    let stdout_bytes = t1.join().unwrap_or_default();
    let stderr_bytes = t2.join().unwrap_or_default();
    Ok(CliOut {
        code: status.code(),
        stdout: String::from_utf8_lossy(&stdout_bytes).to_string(),
        stderr: String::from_utf8_lossy(&stderr_bytes).to_string(),
        stdout_bytes,
    })
}

pub fn require_binaries(cfg: &Config) {
    for b in [cfg.anthem_release(), cfg.anthem_dev()] {
        if !b.exists() {
            eprintln!("[avm] missing anthem binary {} (bin/check builds it)", b.display());
            std::process::exit(2);
        }
    }
}
