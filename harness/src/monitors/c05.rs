//! C05: gamma reduces here-and-there satisfaction to classical satisfaction.
use crate::kit::eval::{Consts, Tv, World, eval_fol};
use crate::kit::generate::{FolOpts, default_pool, gen_assignment, gen_formula, gen_ht, show_assign};
use crate::kit::json::J;
use crate::kit::rng::Rng;
use crate::kit::value::Interp;
use crate::monitors::common::*;
use crate::run::{Config, Outcome, Stats, finish, guarded, parallel, scratch_dir};
use anthem::syntax_tree::fol::sigma_0 as fol;
use anthem::translating::classical_reduction::gamma::Gamma;
use std::collections::BTreeMap;
use std::time::{Duration, Instant};

/// the classical interpretation that gives p's h-copy the extent of p in H and its t-copy the
/// extent of p in T (documented naming: prefix h / t)
pub fn ht_as_classical(h: &Interp, t: &Interp) -> Interp {
    let mut j = Interp::default();
    for ((p, a), e) in &h.preds {
        j.preds.insert((format!("h{p}"), *a), e.clone());
    }
    for ((p, a), e) in &t.preds {
        j.preds.insert((format!("t{p}"), *a), e.clone());
    }
    j
}

pub fn nesting_signature(f: &fol::Formula) -> String {
    // coarse shape: sequence of connectives along the leftmost-deepest path
    fn go(f: &fol::Formula, out: &mut String, d: u32) {
        if d > 6 {
            return;
        }
        match f {
            fol::Formula::AtomicFormula(_) => out.push('a'),
            fol::Formula::UnaryFormula { formula, .. } => {
                out.push('~');
                go(formula, out, d + 1)
            }
            fol::Formula::BinaryFormula { connective, lhs, rhs } => {
                out.push(match connective {
                    fol::BinaryConnective::Conjunction => '&',
                    fol::BinaryConnective::Disjunction => '|',
                    fol::BinaryConnective::Implication => '>',
                    fol::BinaryConnective::ReverseImplication => '<',
                    fol::BinaryConnective::Equivalence => '=',
                });
                go(lhs, out, d + 1);
                go(rhs, out, d + 1)
            }
            fol::Formula::QuantifiedFormula { quantification, formula } => {
                out.push(if quantification.quantifier == fol::Quantifier::Forall { 'A' } else { 'E' });
                go(formula, out, d + 1)
            }
        }
    }
    let mut s = String::new();
    go(f, &mut s, 0);
    s
}

fn case(cfg: &Config, tmp: &std::path::Path, idx: u64, r: &mut Rng, st: &mut Stats) {
    let mut o = FolOpts::default();
    if r.chance(1, 3) {
        // predicate names that collide with the h/t prefixes
        o.preds = vec![("p".into(), 1), ("hp".into(), 1), ("tp".into(), 1), ("h".into(), 0), ("t".into(), 2), ("th".into(), 1)];
    }
    o.depth = cfg.pick(4, 5);
    let mut text = gen_formula(r, &o, o.depth);
    if r.chance(1, 4) {
        // a quantifier directly over an implication-like connective whose antecedent holds
        // everywhere outside a small window: only the values inside the window can serve as
        // witnesses, so here-part and there-part must agree on ONE value (over the infinite
        // domain a plain `exists X (p(X) -> q(X))` is true for any value p does not hold of)
        let x = ["X", "X$i", "N$i"][r.upto(3)];
        let mut oo = o.clone();
        oo.vars = vec![match x.find('$') { Some(i) => (x[..i].to_string(), x[i..].to_string()), None => (x.to_string(), String::new()) }];
        let (da, db) = (1 + r.upto(2) as u32, 1 + r.upto(2) as u32);
        let a = gen_formula(r, &oo, da);
        let b = gen_formula(r, &oo, db);
        // w: outside the window, v: inside the window
        let (w, v) = match r.below(3) {
            0 => (format!("{x} != 1 and {x} != 2"), format!("({x} = 1 or {x} = 2)")),
            1 => (format!("{x} != 0 and {x} != 1 and {x} != 2"), format!("({x} = 0 or {x} = 1 or {x} = 2)")),
            _ => (format!("not ({x} = 1 or {x} = 2)"), format!("not ({x} != 1 and {x} != 2)")),
        };
        let q = ["exists", "exists", "forall"][r.upto(3)];
        // outside the window the antecedent is true and the consequent false
        let b = if r.chance(3, 4) { format!("({b}) and {v}") } else { b };
        let body = match r.below(4) {
            0 | 1 => format!("({a}) or ({w}) -> {b}"),
            2 => format!("{b} <- ({a}) or ({w})"),
            _ => format!("(({a}) or ({w})) <-> ({b})"),
        };
        text = match r.below(4) {
            0 => format!("not {q} {x} ({body})"),
            1 => format!("{q} {x} ({body}) -> p(0)"),
            _ => format!("{q} {x} ({body})"),
        };
        st.inc("quantifier_over_implication_templates");
    }
    if let Ok(t) = std::env::var("AVM_C05_FORMULA") {
        // debugging aid: check one given formula on many interpretations
        text = t;
    }
    let Ok(f) = parse_formula(&text) else {
        st.inc("generator_parse_errors");
        return;
    };
    let g = match guarded(|| f.clone().gamma()) {
        Ok(g) => g,
        Err(p) => {
            st.violation("gamma-panic", format!("gamma panicked: {p}"), J::obj().set("formula", J::s(&text)));
            return;
        }
    };
    st.inc("formulas");
    if idx < 3 {
        st.sample(J::obj().set("formula", J::s(f.to_string())).set("gamma", J::s(g.to_string())));
    }
    // distinct predicates receive distinct h- and t-copies
    let src: Vec<(String, usize)> = formula_preds(&f);
    let dst: Vec<(String, usize)> = formula_preds(&g);
    let mut image: BTreeMap<(String, usize), (String, usize)> = BTreeMap::new();
    for (p, n) in &src {
        for pre in ["h", "t"] {
            let k = (format!("{pre}{p}"), *n);
            if let Some(other) = image.insert(k.clone(), (p.clone(), *n)) {
                st.violation("copy-collision", format!("predicates {}/{} and {p}/{n} share the copy {}/{}", other.0, other.1, k.0, k.1), J::obj().set("formula", J::s(&text)));
            }
        }
    }
    for d in &dst {
        if !image.contains_key(d) {
            st.violation("unexpected-predicate", format!("gamma(F) mentions {}/{} which is not an h- or t-copy of a predicate of F", d.0, d.1), J::obj().set("formula", J::s(&text)).set("gamma", J::s(g.to_string())));
            return;
        }
    }
    if f.free_variables() != g.free_variables() && f.free_variables().iter().collect::<std::collections::BTreeSet<_>>() != g.free_variables().iter().collect::<std::collections::BTreeSet<_>>() {
        st.violation("free-variables-changed", "gamma changed the free variables", J::obj().set("formula", J::s(&text)).set("gamma", J::s(g.to_string())));
    }
    let pool = default_pool();
    let consts = Consts::new();
    let sig = nesting_signature(&f);
    for k in 0..cfg.pick(6, 10) {
        let (h, t) = gen_ht(r, &src, &pool, if k % 3 == 2 { 3 } else { 0 });
        let j = ht_as_classical(&h, &t);
        let sigma = gen_assignment(r, &o.vars, &pool);
        let a = eval_fol(&f, &h, &t, &consts, &sigma, World::H).0;
        let b = eval_fol(&g, &j, &j, &consts, &sigma, World::C).0;
        match (a, b) {
            (Tv::U, _) | (_, Tv::U) => st.inc("unknown"),
            (a, b) if a == b => {
                st.inc("definite_comparisons");
                st.inc(if a == Tv::T { "agree_true" } else { "agree_false" });
                st.eval(Some(&format!("{sig}|{text}|{k}")));
            }
            (a, b) => {
                st.inc("definite_comparisons");
                st.eval(None);
                st.violation(
                    "ht-vs-gamma",
                    format!("(H,T) |= F is {a:?} but the classical value of gamma(F) is {b:?}"),
                    J::obj()
                        .set("formula", J::s(f.to_string()))
                        .set("gamma", J::s(g.to_string()))
                        .set("H", interp_json(&h))
                        .set("T", interp_json(&t))
                        .set("assignment", J::s(show_assign(&sigma))),
                );
            }
        }
    }
    if idx % 211 == 0 && f.free_variables().is_empty() {
        let file = tmp.join(format!("c05_{idx}.spec"));
        std::fs::write(&file, format!("{f}.\n")).unwrap();
        if let Ok(out) = run_cli(&cfg.anthem_release(), &["translate", "--with", "gamma", file.to_str().unwrap()], None, &[], None) {
            st.inc("cli_runs");
            if out.code != Some(0) || out.stdout != format!("{g}.\n") {
                st.violation("cli-differs", "`anthem translate --with gamma` disagrees with Gamma::gamma", J::obj().set("formula", J::s(f.to_string())).set("stdout", J::s(out.stdout)).set("expected", J::s(format!("{g}.\n"))));
            }
        }
        let _ = std::fs::remove_file(&file);
    }
}

pub fn run(cfg: &Config) -> i32 {
    let started = Instant::now();
    require_binaries(cfg);
    let tmp = scratch_dir(cfg, "c05");
    let budget = Duration::from_secs_f64(cfg.pick(40.0, 420.0) * cfg.scale);
    let stats = parallel(cfg, "main", cfg.scaled(cfg.pick(60_000, 5_000_000)), budget, |idx, r, st| case(cfg, &tmp, idx, r, st));
    let _ = std::fs::remove_dir_all(&tmp);
    finish(
        cfg,
        started,
        Outcome {
            stats,
            level: "exploration",
            rule: "random target-language formulas (all connectives incl. <- and <->, quantifiers with shadowing, three sorts, chained comparisons, predicate names colliding with the h/t prefixes) x HT interpretations H subset T (finite/co-finite) x assignments; a case is one (formula, H, T, assignment) with the HT evaluation of F and the classical evaluation of gamma(F) both definite; distinct by formula text and interpretation index".into(),
            assumptions: vec![
                "the HT (Kripke) mode and the classical mode of the evaluator share only the term layer".into(),
                "h-/t-copies are named by prefixing h/t as documented in the manual".into(),
            ],
            floor: cfg.pick(50_000, 300_000),
            floor_counter: "definite_comparisons".into(),
            known_replayed: vec![],
            extra: J::obj(),
        },
    )
}
