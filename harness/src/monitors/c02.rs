//! C02: external-equivalence obligations are refuted exactly by behavioural differences.
//!
//! Reference (DESIGN.md 5/C02): for an interpretation I (placeholder values, extents of input,
//! output and private predicates) that satisfies the user-guide assumptions,
//!   forward  witness = produces(L, I) and determined(R, I) and not produces(R, I)
//!   backward witness = produces(R, I) and determined(L, I) and not produces(L, I)
//! where produces(S, I) = "I restricted to S's vocabulary (public predicates + S's private
//! predicates) is a stable model of S plus I's input facts" (reduct-based check, kit::aspref) and
//! determined(S, I) = "S's private extents in I are those S's private rules derive from I's public
//! part". With a specification as left side, produces/determined of L are replaced by the truth
//! of the specification's assumptions and `spec` formulas of the matching direction.
use crate::kit::aspref::{AtomSet, Ref, RefStats, atoms_of, fallback_values, interp_of};
use crate::kit::eval::{Assign, Consts, Tv, World, all3, eval_fol};
use crate::kit::generate::tuples_over;
use crate::kit::ir::Sort;
use crate::kit::json::J;
use crate::kit::rng::Rng;
use crate::kit::tasks::*;
use crate::kit::value::{Ext, Interp, Value};
use crate::monitors::c01::div_conv;
use crate::monitors::common::*;
use crate::monitors::sem::family_refutes;
use crate::run::{Config, KnownFinding, Outcome, Stats, finish, load_known, parallel};
use anthem::syntax_tree::{asp::mini_gringo as asp, fol::sigma_0 as fol};
use either::Either;
use std::collections::{BTreeMap, BTreeSet};
use std::time::{Duration, Instant};

pub struct TaskCtx {
    pub texts: ExtTexts,
    pub parsed: ExtParsed,
    pub inputs: Vec<(String, usize)>,
    pub outputs: Vec<(String, usize)>,
    /// (name, sort)
    pub placeholders: Vec<(String, Sort)>,
    pub left_privates: Vec<(String, usize)>,
    pub right_privates: Vec<(String, usize)>,
    /// user guide assumptions with placeholders replaced
    pub ug_assumptions: Vec<fol::Formula>,
    /// name under which each private predicate of the right program appears in the problems
    /// (read off the emitted problems by `bind_right_names`; a clashing private predicate for
    /// which the problems hold no name of its own gets a name that occurs nowhere)
    pub right_names: BTreeMap<(String, usize), (String, usize)>,
    /// some problem of the task gives two different symbolic constants of the input one name
    pub symbols_identified: bool,
    /// symbolic constants the programs mention (placeholders excluded)
    pub symbols: Vec<String>,
}

fn is_public(t: &TaskCtx, p: &(String, usize)) -> bool {
    t.inputs.contains(p) || t.outputs.contains(p)
}

/// the monitor's own placeholder replacement: symbolic constant `n` declared as placeholder of
/// sort s becomes the function constant n$s
pub fn replace_placeholders(f: &fol::Formula, ph: &[(String, Sort)]) -> fol::Formula {
    fn term(t: &fol::GeneralTerm, ph: &[(String, Sort)]) -> fol::GeneralTerm {
        if let fol::GeneralTerm::SymbolicTerm(fol::SymbolicTerm::Symbol(s)) = t {
            if let Some((_, sort)) = ph.iter().find(|(n, _)| n == s) {
                return match sort {
                    Sort::G => fol::GeneralTerm::FunctionConstant(s.clone()),
                    Sort::I => fol::GeneralTerm::IntegerTerm(fol::IntegerTerm::FunctionConstant(s.clone())),
                    Sort::S => fol::GeneralTerm::SymbolicTerm(fol::SymbolicTerm::FunctionConstant(s.clone())),
                };
            }
        }
        t.clone()
    }
    match f {
        fol::Formula::AtomicFormula(fol::AtomicFormula::Atom(a)) => fol::Formula::AtomicFormula(fol::AtomicFormula::Atom(fol::Atom {
            predicate_symbol: a.predicate_symbol.clone(),
            terms: a.terms.iter().map(|t| term(t, ph)).collect(),
        })),
        fol::Formula::AtomicFormula(fol::AtomicFormula::Comparison(c)) => fol::Formula::AtomicFormula(fol::AtomicFormula::Comparison(fol::Comparison {
            term: term(&c.term, ph),
            guards: c.guards.iter().map(|g| fol::Guard { relation: g.relation.clone(), term: term(&g.term, ph) }).collect(),
        })),
        fol::Formula::AtomicFormula(a) => fol::Formula::AtomicFormula(a.clone()),
        fol::Formula::UnaryFormula { connective, formula } => fol::Formula::UnaryFormula { connective: connective.clone(), formula: Box::new(replace_placeholders(formula, ph)) },
        fol::Formula::BinaryFormula { connective, lhs, rhs } => fol::Formula::BinaryFormula {
            connective: connective.clone(),
            lhs: Box::new(replace_placeholders(lhs, ph)),
            rhs: Box::new(replace_placeholders(rhs, ph)),
        },
        fol::Formula::QuantifiedFormula { quantification, formula } => fol::Formula::QuantifiedFormula { quantification: quantification.clone(), formula: Box::new(replace_placeholders(formula, ph)) },
    }
}

pub fn make_ctx(texts: ExtTexts) -> Result<TaskCtx, String> {
    let parsed = parse_ext(&texts)?;
    let inputs: Vec<(String, usize)> = parsed.ug.input_predicates().into_iter().map(|p| (p.symbol, p.arity)).collect();
    let outputs: Vec<(String, usize)> = parsed.ug.output_predicates().into_iter().map(|p| (p.symbol, p.arity)).collect();
    let placeholders: Vec<(String, Sort)> = parsed.ug.placeholders().into_iter().map(|c| (c.name, sort_of(c.sort))).collect();
    let pubs: Vec<(String, usize)> = inputs.iter().chain(outputs.iter()).cloned().collect();
    let privs = |preds: Vec<(String, usize)>| -> Vec<(String, usize)> { preds.into_iter().filter(|p| !pubs.contains(p)).collect() };
    let left_privates = match &parsed.left {
        Either::Left(p) => privs(program_preds(p)),
        Either::Right(s) => privs(s.predicates().into_iter().map(|p| (p.symbol, p.arity)).collect()),
    };
    let right_privates = privs(program_preds(&parsed.right));
    let ug_assumptions = parsed
        .ug
        .formulas()
        .into_iter()
        .filter(|f| f.role == fol::Role::Assumption)
        .map(|f| replace_placeholders(&f.formula, &placeholders))
        .collect();
    let right_names = right_privates.iter().map(|p| (p.clone(), if left_privates.contains(p) { (format!("{}_p", p.0), p.1) } else { p.clone() })).collect();
    let mut symbols: Vec<String> = parsed.right.function_constants().into_iter().collect();
    if let Either::Left(p) = &parsed.left {
        symbols.extend(p.function_constants());
    }
    symbols.sort();
    symbols.dedup();
    symbols.retain(|c| !placeholders.iter().any(|(n, _)| n == c));
    Ok(TaskCtx { texts, parsed, inputs, outputs, placeholders, left_privates, right_privates, ug_assumptions, right_names, symbols_identified: false, symbols })
}

/// Reads the names of the right program's private predicates off the emitted problems instead of
/// prescribing anthem's renaming scheme: a private predicate p/n that both sides have must
/// appear under a name `p_<suffix>`/n of its own, i.e. one that is neither public nor a private
/// predicate of the left side nor another private predicate of the right side. If the problems
/// hold no such name, the two sides' predicates are identified; the right one then gets a name
/// that occurs in no problem, so that the problems are evaluated with the left one's extent and
/// every interpretation in which the two must differ shows the disagreement.
pub fn bind_right_names(t: &mut TaskCtx, problems: &[ProblemData], st: &mut Stats) {
    let in_problems = crate::monitors::sem::problem_preds(problems);
    let clashing: Vec<&(String, usize)> = t.right_privates.iter().filter(|p| t.left_privates.contains(p)).collect();
    // predicates of the problems that belong to nobody under their own name, each attributed to
    // the clashing private predicate with the longest name it extends (`on_p_x` extends `on_p`
    // rather than `on`)
    let mut own: BTreeMap<(String, usize), Vec<(String, usize)>> = BTreeMap::new();
    for q in &in_problems {
        if t.left_privates.contains(q) || t.right_privates.contains(q) || t.inputs.contains(q) || t.outputs.contains(q) {
            continue;
        }
        let best = clashing
            .iter()
            .filter(|p| p.1 == q.1 && q.0.len() > p.0.len() + 1 && q.0.starts_with(&format!("{}_", p.0)))
            .max_by_key(|p| p.0.len());
        if let Some(p) = best {
            own.entry((*p).clone()).or_default().push(q.clone());
        }
    }
    let mut names = BTreeMap::new();
    for p in &t.right_privates {
        if !t.left_privates.contains(p) {
            names.insert(p.clone(), p.clone());
            continue;
        }
        match own.get(p).map(|v| v.as_slice()) {
            Some([one]) => {
                names.insert(p.clone(), one.clone());
            }
            _ => {
                st.inc("clashing_private_predicates_without_a_name_of_their_own");
                names.insert(p.clone(), (format!("{}~right", p.0), p.1));
            }
        }
    }
    t.right_names = names;
}

/// Reads the names of private predicates and symbolic constants off the problems: binds the
/// right side's private predicates to the names they carry, and returns the problems with every
/// symbolic constant under the name it has in the input files (constants renamed for TPTP's sake
/// are read as the constants they stand for).
pub fn prepare(t: &mut TaskCtx, problems: &[ProblemData], st: &mut Stats) -> Vec<ProblemData> {
    bind_right_names(t, problems, st);
    if problems.iter().any(|p| p.symbol_map.iter().any(|(c, n)| c != n)) {
        st.inc("tasks_with_renamed_symbolic_constants");
    }
    if problems.iter().any(|p| p.identifies_symbols()) {
        t.symbols_identified = true;
        st.inc("tasks_where_two_symbolic_constants_got_one_name");
    }
    problems.iter().map(|p| p.with_original_symbols()).collect()
}

/// name under which a private predicate of the right program appears in the problems
fn right_key(t: &TaskCtx, p: &(String, usize)) -> (String, usize) {
    t.right_names.get(p).cloned().unwrap_or_else(|| p.clone())
}

#[derive(Clone)]
pub struct FullInterp {
    pub i: Interp,
    pub ph: BTreeMap<String, Value>,
}

impl FullInterp {
    pub fn consts(&self, t: &TaskCtx) -> Consts {
        let mut c = Consts::new();
        for (n, s) in &t.placeholders {
            c.insert((n.clone(), *s), self.ph[n].clone());
        }
        c
    }
}

/// restriction of I to the vocabulary of one side, private predicates under their own names
fn side_view(t: &TaskCtx, fi: &FullInterp, right: bool) -> Interp {
    let mut v = Interp::default();
    for p in t.inputs.iter().chain(t.outputs.iter()) {
        v.preds.insert(p.clone(), fi.i.preds.get(p).cloned().unwrap_or_default());
    }
    let privs = if right { &t.right_privates } else { &t.left_privates };
    for p in privs {
        let key = if right { right_key(t, p) } else { p.clone() };
        v.preds.insert(p.clone(), fi.i.preds.get(&key).cloned().unwrap_or_default());
    }
    v
}

fn public_part(t: &TaskCtx, fi: &FullInterp) -> Interp {
    let mut v = Interp::default();
    for p in t.inputs.iter().chain(t.outputs.iter()) {
        v.preds.insert(p.clone(), fi.i.preds.get(p).cloned().unwrap_or_default());
    }
    v
}

fn in_facts(t: &TaskCtx, fi: &FullInterp) -> AtomSet {
    let mut s = AtomSet::new();
    for p in &t.inputs {
        if let Some(e) = fi.i.preds.get(p) {
            for tp in &e.exc {
                s.insert((p.0.clone(), tp.clone()));
            }
        }
    }
    s
}

pub struct RefSide<'a> {
    pub prog: &'a asp::Program,
    pub right: bool,
}

fn produces(t: &TaskCtx, fi: &FullInterp, side: &RefSide, rs: &RefStats) -> Tv {
    let re = Ref { placeholders: &fi.ph, div: div_conv(), stats: rs };
    let view = side_view(t, fi, side.right);
    let facts = in_facts(t, fi);
    let fb = fallback_values(side.prog, &[&view], &fi.ph.values().cloned().collect::<Vec<_>>());
    re.is_stable(side.prog, &view, &facts, &fb)
}

fn determined(t: &TaskCtx, fi: &FullInterp, side: &RefSide, rs: &RefStats) -> Tv {
    let re = Ref { placeholders: &fi.ph, div: div_conv(), stats: rs };
    let privs = if side.right { &t.right_privates } else { &t.left_privates };
    if privs.is_empty() {
        return Tv::T;
    }
    let base = public_part(t, fi);
    let fb = fallback_values(side.prog, &[&base], &fi.ph.values().cloned().collect::<Vec<_>>());
    let Some(det) = re.determine_privates(side.prog, privs, &base, &fb) else { return Tv::U };
    let view = side_view(t, fi, side.right);
    let mut actual = AtomSet::new();
    for p in privs {
        if let Some(e) = view.preds.get(p) {
            for tp in &e.exc {
                actual.insert((p.0.clone(), tp.clone()));
            }
        }
    }
    Tv::of(det == actual)
}

fn eval_all(fs: &[fol::Formula], fi: &FullInterp, t: &TaskCtx) -> Tv {
    let c = fi.consts(t);
    all3(fs.iter().map(|f| eval_fol(f, &fi.i, &fi.i, &c, &Assign::new(), World::C).0))
}

/// reference verdict for one direction (forward: true)
pub fn witness(t: &TaskCtx, fi: &FullInterp, forward: bool, rs: &RefStats) -> Tv {
    let ug = eval_all(&t.ug_assumptions, fi, t);
    if ug == Tv::F {
        return Tv::F;
    }
    let right = RefSide { prog: &t.parsed.right, right: true };
    let core = match &t.parsed.left {
        Either::Left(lp) => {
            let left = RefSide { prog: lp, right: false };
            if forward {
                produces(t, fi, &left, rs).and(determined(t, fi, &right, rs)).and(produces(t, fi, &right, rs).not())
            } else {
                produces(t, fi, &right, rs).and(determined(t, fi, &left, rs)).and(produces(t, fi, &left, rs).not())
            }
        }
        Either::Right(spec) => {
            use fol::Direction::*;
            let sel = |role: fol::Role, dirs: &[fol::Direction]| -> Vec<fol::Formula> {
                spec.formulas.iter().filter(|f| f.role == role && dirs.contains(&f.direction)).map(|f| replace_placeholders(&f.formula, &t.placeholders)).collect()
            };
            if forward {
                let premises = eval_all(&sel(fol::Role::Assumption, &[Universal, Forward]), fi, t).and(eval_all(&sel(fol::Role::Spec, &[Universal, Forward]), fi, t));
                premises.and(determined(t, fi, &right, rs)).and(produces(t, fi, &right, rs).not())
            } else {
                let premises = eval_all(&sel(fol::Role::Assumption, &[Universal]), fi, t);
                let conclusions = eval_all(&sel(fol::Role::Spec, &[Universal, Backward]), fi, t);
                premises.and(produces(t, fi, &right, rs)).and(conclusions.not())
            }
        }
    };
    ug.and(core)
}

// ------------------------------------------------------------------------------------------
// interpretations

fn gen_placeholders(t: &TaskCtx, r: &mut Rng) -> BTreeMap<String, Value> {
    let mut m = BTreeMap::new();
    for (n, s) in &t.placeholders {
        let v = match s {
            Sort::I => Value::Int(r.range(0, 3) as i128),
            Sort::S => Value::Sym(["a", "b"][r.upto(2)].to_string()),
            Sort::G => [Value::Int(1), Value::Int(2), Value::Sym("a".into()), Value::Inf][r.upto(4)].clone(),
        };
        m.insert(n.clone(), v);
    }
    m
}

fn gen_inputs(t: &TaskCtx, r: &mut Rng) -> AtomSet {
    // integers and one or two of the symbolic constants the programs themselves mention
    let mut pool = vec![Value::Int(0), Value::Int(1), Value::Int(2)];
    if t.symbols.is_empty() || r.chance(1, 3) {
        pool.push(Value::Sym("a".into()));
    } else {
        pool.push(Value::Sym(t.symbols[r.upto(t.symbols.len())].clone()));
        if r.chance(1, 3) {
            let c = Value::Sym(t.symbols[r.upto(t.symbols.len())].clone());
            if !pool.contains(&c) {
                pool.push(c);
            }
        }
    }
    let mut s = AtomSet::new();
    for (p, n) in &t.inputs {
        let dens = if *n <= 1 { 2 } else { 5 };
        for tp in tuples_over(&pool, *n) {
            if r.below(dens) == 0 {
                s.insert((p.clone(), tp));
            }
        }
    }
    s
}

fn assemble(t: &TaskCtx, ph: &BTreeMap<String, Value>, public: &AtomSet, lpriv: &AtomSet, rpriv: &AtomSet) -> FullInterp {
    let mut i = Interp::default();
    for p in t.inputs.iter().chain(t.outputs.iter()).chain(t.left_privates.iter()) {
        i.preds.insert(p.clone(), Ext::default());
    }
    for p in &t.right_privates {
        i.preds.insert(right_key(t, p), Ext::default());
    }
    for (p, tp) in public.iter().chain(lpriv.iter()) {
        i.preds.entry((p.clone(), tp.len())).or_default().exc.insert(tp.clone());
    }
    for (p, tp) in rpriv {
        let key = right_key(t, &(p.clone(), tp.len()));
        i.preds.entry(key).or_default().exc.insert(tp.clone());
    }
    FullInterp { i, ph: ph.clone() }
}

/// interpretations guided by the stable models of either side for random inputs
pub fn guided_interps(t: &TaskCtx, r: &mut Rng, st: &mut Stats, max: usize) -> Vec<FullInterp> {
    let mut out = Vec::new();
    let ph = gen_placeholders(t, r);
    let facts = gen_inputs(t, r);
    let rs = RefStats::default();
    let re = Ref { placeholders: &ph, div: div_conv(), stats: &rs };
    let phv: Vec<Value> = ph.values().cloned().collect();
    let mut publics: BTreeSet<AtomSet> = BTreeSet::new();
    let mut sides: Vec<(&asp::Program, bool)> = vec![(&t.parsed.right, true)];
    if let Either::Left(lp) = &t.parsed.left {
        sides.push((lp, false));
    }
    for (prog, _right) in &sides {
        let fb = fallback_values(prog, &[&interp_of(&facts)], &phv);
        match re.stable_models(prog, &facts, &fb, 7) {
            Some(ms) => {
                st.add("stable_models_enumerated", ms.len() as u64);
                for m in ms {
                    let pubpart: AtomSet = m.into_iter().filter(|(p, tp)| is_public(t, &(p.clone(), tp.len()))).collect();
                    publics.insert(pubpart);
                }
            }
            None => st.inc("stable_model_enumeration_undecided"),
        }
    }
    if publics.is_empty() {
        publics.insert(facts.clone());
    }
    // one-atom perturbations of the public parts
    let pool = [Value::Int(0), Value::Int(1), Value::Int(2), Value::Sym("a".into())];
    let base: Vec<AtomSet> = publics.iter().cloned().collect();
    // only output predicates that occur in the task: a declared output that neither side mentions
    // does not occur in any emitted problem and is outside the vocabulary of the interpretations
    let mut mentioned: Vec<(String, usize)> = program_preds(&t.parsed.right);
    match &t.parsed.left {
        Either::Left(lp) => mentioned.extend(program_preds(lp)),
        Either::Right(s) => mentioned.extend(s.predicates().into_iter().map(|p| (p.symbol, p.arity))),
    }
    let perturbable: Vec<&(String, usize)> = t.outputs.iter().filter(|o| mentioned.contains(o)).collect();
    for b in base.iter().take(3) {
        if perturbable.is_empty() {
            break;
        }
        let (p, n) = perturbable[r.upto(perturbable.len())];
        let tp: Vec<Value> = (0..*n).map(|_| pool[r.upto(pool.len())].clone()).collect();
        let mut c = b.clone();
        if !c.remove(&(p.clone(), tp.clone())) {
            c.insert((p.clone(), tp));
        }
        publics.insert(c);
    }
    for pubpart in publics.into_iter().take(max) {
        let base = {
            let mut i = interp_of(&pubpart);
            for p in t.inputs.iter().chain(t.outputs.iter()) {
                i.preds.entry(p.clone()).or_default();
            }
            i
        };
        let det = |prog: &asp::Program, privs: &[(String, usize)]| -> Option<AtomSet> {
            if privs.is_empty() {
                return Some(AtomSet::new());
            }
            let fb = fallback_values(prog, &[&base], &phv);
            re.determine_privates(prog, privs, &base, &fb)
        };
        let rp = det(&t.parsed.right, &t.right_privates);
        let lp = match &t.parsed.left {
            Either::Left(lp) => det(lp, &t.left_privates),
            Either::Right(_) => Some(AtomSet::new()),
        };
        let (Some(lp), Some(rp)) = (lp, rp) else {
            st.inc("private_extents_undecided");
            continue;
        };
        out.push(assemble(t, &ph, &pubpart, &lp, &rp));
        // a variant whose private extents are not the determined ones
        if r.chance(1, 4) && (!t.left_privates.is_empty() || !t.right_privates.is_empty()) {
            let mut rp2 = rp.clone();
            let mut lp2 = lp.clone();
            if !t.right_privates.is_empty() && r.chance(1, 2) {
                let (p, n) = &t.right_privates[r.upto(t.right_privates.len())];
                let tp: Vec<Value> = (0..*n).map(|_| pool[r.upto(pool.len())].clone()).collect();
                if !rp2.remove(&(p.clone(), tp.clone())) {
                    rp2.insert((p.clone(), tp));
                }
            } else if !t.left_privates.is_empty() {
                let (p, n) = &t.left_privates[r.upto(t.left_privates.len())];
                let tp: Vec<Value> = (0..*n).map(|_| pool[r.upto(pool.len())].clone()).collect();
                if !lp2.remove(&(p.clone(), tp.clone())) {
                    lp2.insert((p.clone(), tp));
                }
            }
            out.push(assemble(t, &ph, &pubpart, &lp2, &rp2));
        }
    }
    out
}

fn origin(t: &TaskCtx, flags: Flags) -> J {
    crate::monitors::c09::origin_ext(&t.texts, flags)
}

/// root cause tags for the known-finding matcher
fn classify(t: &TaskCtx, forward: bool, _observed: Tv, _expected: Tv) -> String {
    // an output predicate that one of the programs never mentions
    let mut tag = String::new();
    let mut progs: Vec<&asp::Program> = vec![&t.parsed.right];
    if let Either::Left(p) = &t.parsed.left {
        progs.push(p);
    }
    for p in progs {
        let preds = program_preds(p);
        if t.outputs.iter().any(|o| !preds.contains(o)) {
            tag = ":output-predicate-not-mentioned-by-one-side".into();
        }
    }
    // a private predicate that both sides have and for which the problems hold no separate name
    if t.right_names.values().any(|n| n.0.ends_with("~right")) {
        tag = ":private-predicates-of-the-two-sides-identified".into();
    }
    if t.symbols_identified {
        tag = ":symbolic-constants-identified-by-renaming".into();
    }
    format!("{}-mismatch{}", if forward { "forward" } else { "backward" }, tag)
}

pub fn check_task(t: &TaskCtx, flags: Flags, problems: &[ProblemData], interps: &[FullInterp], st: &mut Stats) {
    for fi in interps {
        let consts = fi.consts(t);
        for (forward, prefix, dir) in [(true, "forward", Dir::Forward), (false, "backward", Dir::Backward)] {
            if flags.direction != Dir::Universal && flags.direction != dir {
                continue;
            }
            let rs = RefStats::default();
            let expected = witness(t, fi, forward, &rs);
            let (observed, which) = family_refutes(problems, prefix, &fi.i, &consts, &Assign::new());
            match (observed, expected) {
                (Tv::U, _) | (_, Tv::U) => st.inc("unknown"),
                (a, b) if a == b => {
                    st.inc("definite_comparisons");
                    if a == Tv::T {
                        st.inc("agree_refuted_and_witness");
                    }
                    st.eval(Some(&format!("{}|{prefix}|{}|{:?}", origin(t, flags).compact(), interp_json(&fi.i).compact(), fi.ph)));
                }
                (a, b) => {
                    st.inc("definite_comparisons");
                    st.eval(None);
                    st.violation(
                        classify(t, forward, a, b),
                        format!("{prefix}: some problem refuted = {a:?} ({which:?}) but the interpretation witnesses a behavioural difference = {b:?}"),
                        origin(t, flags).set("I", interp_json(&fi.i)).set("placeholders", J::s(format!("{:?}", fi.ph))),
                    );
                }
            }
        }
    }
}

fn gen_task(r: &mut Rng, st: &mut Stats) -> Option<TaskCtx> {
    let mut o = ExtOpts::default();
    o.hostile_identifiers = false;
    // private predicates named like the renamed copy of another one (aux next to aux_p)
    o.renamed_twins = r.chance(1, 4);
    // symbolic constants named like 0-ary predicates (renamed in the problems), next to constants
    // named like the renamed ones
    o.symbols_like_predicates = r.chance(1, 5);
    let want_spec = r.chance(1, 3);
    if want_spec {
        // the specification is derived from a left program without private predicates
        o.max_privates = 0;
    }
    let (mut texts, _sig) = gen_external(r, &o);
    if want_spec {
        // specification as left side: derived from the left program by anthem's own completion
        // (workload generation only; the oracle evaluates the formulas themselves)
        if let Some(spec) = derive_spec(&texts, r) {
            texts.left = Either::Right(spec);
            st.inc("tasks_with_specification");
        }
    }
    match make_ctx(texts) {
        Ok(t) => Some(t),
        Err(_) => {
            st.inc("generator_parse_errors");
            None
        }
    }
}

/// specification text obtained from the left program (no private predicates): the completed
/// definitions and constraints as `spec` formulas with random direction annotations, plus
/// assumptions about input predicates
pub fn derive_spec(texts: &ExtTexts, r: &mut Rng) -> Option<String> {
    use anthem::translating::classical_reduction::completion::Completion;
    use anthem::translating::formula_representation::tau_star::TauStar;
    let Either::Left(lt) = &texts.left else { return None };
    let prog: asp::Program = lt.parse().ok()?;
    let ug: fol::UserGuide = texts.ug.parse().ok()?;
    let pubs = ug.public_predicates();
    if prog.predicates().into_iter().any(|p| !pubs.contains(&fol::Predicate::from(p))) {
        return None;
    }
    let comp = crate::run::guarded(|| prog.clone().tau_star().completion(ug.input_predicates())).ok()??;
    let mut lines = Vec::new();
    for f in comp.formulas {
        let dir = ["", "", "(forward)", "(backward)", "(universal)"][r.upto(5)];
        lines.push(format!("spec{dir}: {f}."));
    }
    // assumptions about input predicates that the sampled inputs (0, 1, 2, a) can falsify, with
    // every direction annotation (a backward assumption on the specification side is ignored
    // with a warning)
    for p in ug.input_predicates() {
        if r.chance(1, 2) {
            let dir = ["", "(forward)", "(forward)", "(universal)", "(backward)"][r.upto(5)];
            let vars: Vec<String> = (0..p.arity).map(|i| format!("X{i}")).collect();
            let f = if p.arity == 0 {
                [format!("not {}", p.symbol), format!("{} or not {}", p.symbol, p.symbol)][r.upto(2)].clone()
            } else {
                let atom = format!("{}({})", p.symbol, vars.join(", "));
                let cond = [format!("{} != a", vars[0]), format!("exists N$i ({} = N$i and N$i > 0)", vars[0]), format!("{} != 1", vars[0]), format!("{} = {}", vars[0], vars[0])][r.upto(4)].clone();
                format!("forall {} ({atom} -> {cond})", vars.join(" "))
            };
            lines.push(format!("assumption{dir}: {f}."));
        }
    }
    // hand-written spec formulas of shapes no translation produces: an equivalence directly
    // under an existential quantifier, under a negation, inside a disjunction, under two
    // alternating quantifiers
    let pubs: Vec<fol::Predicate> = ug.public_predicates().into_iter().collect();
    if !pubs.is_empty() && r.chance(1, 2) {
        for _ in 0..(1 + r.upto(2)) {
            let mut atom = |r: &mut Rng, v: &str| -> String {
                let unary: Vec<&fol::Predicate> = pubs.iter().filter(|p| p.arity == 1).collect();
                let p = if !unary.is_empty() && r.chance(3, 4) { unary[r.upto(unary.len())] } else { &pubs[r.upto(pubs.len())] };
                if p.arity == 0 {
                    p.symbol.clone()
                } else {
                    let args: Vec<String> = (0..p.arity).map(|i| if i == 0 { v.to_string() } else { ["0", "1", v][r.upto(3)].to_string() }).collect();
                    format!("{}({})", p.symbol, args.join(", "))
                }
            };
            let (a, b, c) = (atom(r, "X"), atom(r, "X"), atom(r, "Y"));
            // outside the window {1, 2} the left side is true and the right side false, so that
            // only 1 and 2 can witness the existential formula (over the infinite domain any
            // value outside all extents would)
            let wa = format!("({a} or (X != 1 and X != 2))");
            let wb = format!("({b} and (X = 1 or X = 2))");
            let f = match r.below(10) {
                6 | 7 => format!("exists X ({wa} <-> {wb})"),
                8 => format!("exists X ({wb} <-> {wa})"),
                9 => format!("exists X Y ({wa} <-> {wb} and Y = X)"),
                0 => format!("exists X ({a} <-> {b})"),
                1 => format!("exists X ({a} <-> {b} and X = 1)"),
                2 => format!("not forall X ({a} <-> {b})"),
                3 => format!("forall Y exists X (({a} <-> {c}) or X != Y)"),
                4 => format!("exists X ({a} <-> {b}) or forall Y ({c} <-> not {c})"),
                _ => format!("exists X$i (X$i >= 0 and X$i <= 2 and ({} <-> {}))", a.replace("X", "X$i"), b.replace("X", "X$i")),
            };
            let dir = ["", "(forward)", "(backward)", "(universal)"][r.upto(4)];
            lines.push(format!("spec{dir}: {f}."));
        }
    }
    r.shuffle(&mut lines);
    let text = lines.join("\n");
    // must be accepted by anthem's own parser, otherwise fall back to the program
    text.parse::<fol::Specification>().ok()?;
    Some(text)
}

fn case(cfg: &Config, idx: u64, r: &mut Rng, st: &mut Stats) {
    let Some(mut t) = gen_task(r, st) else { return };
    let flags = Flags::random(r);
    let problems = match build_external(&t.parsed, false, flags) {
        Built::Ok { problems, .. } => problems,
        Built::Refused(_) => {
            st.inc("tasks_refused");
            return;
        }
        Built::Panic(_) => {
            st.inc("lost_to_panic");
            return;
        }
    };
    st.inc("tasks_accepted");
    let problems = prepare(&mut t, &problems, st);
    if idx < 3 {
        st.sample(origin(&t, flags).set("problems", J::Arr(problems.iter().map(|p| J::s(&p.name)).collect())));
    }
    let mut interps = Vec::new();
    for _ in 0..cfg.pick(2, 3) {
        interps.extend(guided_interps(&t, r, st, 6));
    }
    st.add("interpretations", interps.len() as u64);
    check_task(&t, flags, &problems, &interps, st);
}

/// C19 workload: the 8 flag families of an external task compared on model-guided interpretations
pub fn guided_flag_case(cfg: &Config, idx: u64, r: &mut Rng, st: &mut Stats) {
    let Some(mut t) = gen_task(r, st) else { return };
    let mut fams = Vec::new();
    for fl in Flags::all_for(Dir::Universal) {
        match build_external(&t.parsed, true, fl) {
            Built::Ok { problems, .. } => fams.push((fl, problems)),
            _ => return,
        }
    }
    st.inc("external_guided_tasks");
    let fams: Vec<(Flags, Vec<ProblemData>)> = fams.into_iter().map(|(fl, ps)| (fl, prepare(&mut t, &ps, st))).collect();
    let _ = (cfg, idx);
    let org = origin(&t, Flags::all_for(Dir::Universal)[0]);
    for fi in guided_interps(&t, r, st, 5) {
        let consts = fi.consts(&t);
        for prefix in ["forward", "backward"] {
            crate::monitors::c19::compare_families(&fams, prefix, &fi.i, &consts, &Assign::new(), &org, st);
        }
    }
}

/// known-finding witness: {left | specification, right, user_guide} texts
fn replay_known(k: &KnownFinding) -> bool {
    let w = &k.witness;
    let texts = ExtTexts {
        left: match w.str("specification") {
            Some(s) => Either::Right(s.to_string()),
            None => Either::Left(w.str("left").unwrap_or("").to_string()),
        },
        right: w.str("right").unwrap_or("").to_string(),
        ug: w.str("user_guide").unwrap_or("").to_string(),
        po: String::new(),
    };
    let Ok(mut t) = make_ctx(texts) else { return false };
    let flags = Flags { sequential: true, direction: Dir::Universal, simplify: true, break_equivalences: true };
    let Built::Ok { problems, .. } = build_external(&t.parsed, false, flags) else { return false };
    let mut st = Stats::default();
    let problems = prepare(&mut t, &problems, &mut st);
    let mut r = Rng::new(3);
    let mut interps = Vec::new();
    for _ in 0..12 {
        interps.extend(guided_interps(&t, &mut r, &mut st, 8));
    }
    check_task(&t, flags, &problems, &interps, &mut st);
    st.violations.iter().any(|v| v.class == k.class)
}

pub fn run(cfg: &Config) -> i32 {
    let started = Instant::now();
    let budget = Duration::from_secs_f64(cfg.pick(60.0, 600.0) * cfg.scale);
    let stats = parallel(cfg, "main", cfg.scaled(cfg.pick(30_000, 2_000_000)), budget, |idx, r, st| case(cfg, idx, r, st));
    let mut known_replayed = Vec::new();
    for k in load_known(cfg).into_iter().filter(|k| k.property == "C02" && k.status == "open") {
        let still = replay_known(&k);
        known_replayed.push((k, still));
    }
    let _ = atoms_of;
    finish(
        cfg,
        started,
        Outcome {
            stats,
            level: "exploration",
            rule: "generated accepted external-equivalence tasks (program vs program, and specification derived from a program with direction annotations and assumptions; 0-2 inputs, 1-2 outputs incl. outputs missing from one side, 0-2 private predicates per side with clashing names, integer/general placeholders, user-guide assumptions; right side = rewrite, mutant or independent program) under a random flag combination; interpretations are built from the reference stable models of either side for random inputs and placeholder values, one-atom perturbations of their public parts, and perturbed private extents; a case is one (task, direction, interpretation) where 'some emitted problem is refuted' (evaluator on the real problems) and the reference witness condition are both definite".into(),
            assumptions: vec![
                "oracle kit as in C01; stable models are enumerated for tiny programs only".into(),
                "interpretations are restricted to the vocabulary of the task (public predicates, private predicates of either side, placeholders)".into(),
            ],
            floor: cfg.pick(50_000, 300_000),
            floor_counter: "definite_comparisons".into(),
            known_replayed,
            extra: J::obj(),
        },
    )
}
