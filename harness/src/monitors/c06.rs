//! C06: TPTP rendering of a formula preserves its meaning.
use crate::kit::eval::{Assign, Consts, Tv, World, eval_fol, eval_ir};
use crate::kit::generate::{FolOpts, default_pool, gen_formula, gen_ht, value_of_sort};
use crate::kit::ir::Sort;
use crate::kit::json::J;
use crate::kit::rng::Rng;
use crate::kit::tptp::{TForm, ToIr, Ty, read_problem, standard_consts};
use crate::kit::value::Value;
use crate::monitors::common::*;
use crate::run::{Config, KnownFinding, Outcome, Stats, finish, guarded, load_known, parallel};
use anthem::syntax_tree::fol::sigma_0 as fol;
use anthem::verif::{AnnotatedFormula, Problem, Role};
use std::collections::BTreeMap;
use std::time::{Duration, Instant};

fn suffix(s: Sort) -> &'static str {
    match s {
        Sort::G => "g",
        Sort::I => "i",
        Sort::S => "s",
    }
}

/// binder sorts in pre-order, for the "sort of every variable survives" clause
fn binder_sorts_src(f: &fol::Formula, out: &mut Vec<Sort>) {
    match f {
        fol::Formula::AtomicFormula(_) => {}
        fol::Formula::UnaryFormula { formula, .. } => binder_sorts_src(formula, out),
        fol::Formula::BinaryFormula { lhs, rhs, .. } => {
            binder_sorts_src(lhs, out);
            binder_sorts_src(rhs, out)
        }
        fol::Formula::QuantifiedFormula { quantification, formula } => {
            out.extend(quantification.variables.iter().map(|v| sort_of(v.sort)));
            binder_sorts_src(formula, out)
        }
    }
}
fn binder_sorts_tptp(f: &TForm, out: &mut Vec<Sort>) {
    match f {
        TForm::Not(a) => binder_sorts_tptp(a, out),
        TForm::Bin(_, a, b) => {
            binder_sorts_tptp(a, out);
            binder_sorts_tptp(b, out)
        }
        TForm::Quant(_, vars, b) => {
            for (_, t) in vars {
                out.push(match t {
                    Ty::Int => Sort::I,
                    Ty::Named(n) if n == "symbol" => Sort::S,
                    _ => Sort::G,
                });
            }
            binder_sorts_tptp(b, out)
        }
        _ => {}
    }
}

/// replaces the free variables of f by fresh function constants of the same sort
fn close_with_constants(f: &fol::Formula) -> fol::Formula {
    let mut g = f.clone();
    for v in f.free_variables() {
        let name = format!("fv{}", v.name.to_lowercase());
        let c = fol::FunctionConstant { name, sort: v.sort };
        let term = match v.sort {
            fol::Sort::General => fol::GeneralTerm::FunctionConstant(c.name),
            fol::Sort::Integer => fol::GeneralTerm::IntegerTerm(fol::IntegerTerm::FunctionConstant(c.name)),
            fol::Sort::Symbol => fol::GeneralTerm::SymbolicTerm(fol::SymbolicTerm::FunctionConstant(c.name)),
        };
        g = g.substitute(v, term);
    }
    g
}

pub fn check_formula(f: &fol::Formula, r: &mut Rng, n: usize, st: &mut Stats) {
    let wrapped = guarded(|| {
        Problem::with_name("c06")
            .add_annotated_formulas(vec![AnnotatedFormula { name: "f".into(), role: Role::Conjecture, formula: f.clone() }])
            .rename_conflicting_symbols()
            .to_string()
    });
    let text = match wrapped {
        Ok(t) => t,
        Err(p) => {
            st.eval(None);
            st.violation(if p.contains("overflow") { "render-panic:overflow" } else { "render-panic" }, format!("rendering panicked ({p}) for {f}"), J::obj().set("formula", J::s(f.to_string())));
            return;
        }
    };
    st.inc("formulas_rendered");
    let detail = |extra: J| extra.set("formula", J::s(f.to_string())).set("tptp", J::s(text.lines().last().unwrap_or("")));
    let c = match read_problem(&text) {
        Ok(c) => c,
        Err(e) => {
            st.eval(None);
            let class = crate::monitors::c09::classify(&e, &text);
            st.violation(format!("reader-rejects:{class}"), format!("TPTP text of {f} is rejected: {}", e.msg), detail(J::obj().set("error", J::s(e.msg.clone()))));
            return;
        }
    };
    let (_, _, tf) = c.formulas.iter().find(|x| x.1).unwrap();
    // sorts of binders
    let (mut a, mut b) = (Vec::new(), Vec::new());
    binder_sorts_src(f, &mut a);
    binder_sorts_tptp(tf, &mut b);
    if a != b {
        st.eval(None);
        st.violation("binder-sorts-differ", format!("the sorts of the bound variables changed in the rendering of {f}"), detail(J::obj()));
        return;
    }
    // sorts of function constants
    for fc in f.function_constants() {
        let printed = format!("{}_{}", fc.name, suffix(sort_of(fc.sort)));
        let want = match fc.sort {
            fol::Sort::General => Ty::Named("general".into()),
            fol::Sort::Integer => Ty::Int,
            fol::Sort::Symbol => Ty::Named("symbol".into()),
        };
        match c.sig.funcs.get(&printed) {
            Some((args, res)) if args.is_empty() && *res == want => {}
            other => {
                st.eval(None);
                st.violation("constant-sort-differs", format!("function constant {fc} is rendered/declared as {other:?}"), detail(J::obj()));
                return;
            }
        }
    }
    let mut conv = ToIr::new(&c.sig);
    let ir = match conv.form(tf) {
        Ok(x) => x,
        Err(e) => {
            st.inc("tptp_not_interpretable");
            let _ = e;
            return;
        }
    };
    let pool = default_pool();
    let preds = formula_preds(f);
    for k in 0..n {
        let (_h, t) = gen_ht(r, &preds, &pool, if k % 3 == 2 { 3 } else { 0 });
        let mut consts = Consts::new();
        let mut printed: BTreeMap<String, Value> = BTreeMap::new();
        for fc in f.function_constants() {
            let s = sort_of(fc.sort);
            let v = value_of_sort(r, &pool, s);
            consts.insert((fc.name.clone(), s), v.clone());
            printed.insert(format!("{}_{}", fc.name, suffix(s)), v);
        }
        let Ok(tconsts) = standard_consts(&c, &printed) else {
            st.inc("tptp_not_interpretable");
            return;
        };
        let a = eval_fol(f, &t, &t, &consts, &Assign::new(), World::C).0;
        let b = eval_ir(&ir, conv.sorts.clone(), &t, &t, &tconsts, World::C).0;
        match (a, b) {
            (Tv::U, _) | (_, Tv::U) => st.inc("unknown"),
            (a, b) if a == b => {
                st.inc("definite_comparisons");
                st.eval(Some(&format!("{f}|{k}")));
            }
            (a, b) => {
                st.inc("definite_comparisons");
                st.eval(None);
                st.violation(
                    "meaning-differs",
                    format!("{f} is {a:?} but its TPTP rendering reads as {b:?}"),
                    detail(J::obj().set("I", interp_json(&t)).set("constants", consts_json(&consts))),
                );
                return;
            }
        }
    }
}

fn gen_case(r: &mut Rng, depth: u32) -> Option<fol::Formula> {
    let mut o = FolOpts::default();
    o.depth = depth;
    o.max_chain = 4;
    o.consts = vec![("c".into(), Sort::G), ("n".into(), Sort::I), ("sy".into(), Sort::S), ("m".into(), Sort::I)];
    if r.chance(1, 4) {
        // variable and constant names that end like the sort tags of the rendering
        o.vars = vec![("N".into(), "$i".into()), ("N_i".into(), "$i".into()), ("X".into(), "".into()), ("X_g".into(), "".into()), ("S".into(), "$s".into()), ("S_s".into(), "$s".into()), ("N_i".into(), "".into())];
        o.consts.push(("n_i".into(), Sort::I));
        o.consts.push(("c_g".into(), Sort::G));
    }
    let mut text = gen_formula(r, &o, depth);
    if r.chance(1, 5) {
        // every relation between every pair of statically sorted operands (the rendering chooses
        // between $less & co., the general order predicates and plain (in)equality by these sorts)
        let ints = ["3", "-2", "0", "n$i", "N$i", "n$i + 1", "N$i * 2", "-N$i"];
        let syms = ["a", "b", "sy$s", "S$s"];
        let gens = ["c$g", "X", "#inf", "#sup", "Y$g"];
        let mut term = |r: &mut Rng| -> &'static str {
            match r.below(3) {
                0 => ints[r.upto(ints.len())],
                1 => syms[r.upto(syms.len())],
                _ => gens[r.upto(gens.len())],
            }
        };
        let rels = ["=", "!=", "<", "<=", ">", ">="];
        let mut cmp = format!("{} {} {}", term(r), rels[r.upto(6)], term(r));
        for _ in 0..r.upto(3) {
            cmp.push_str(&format!(" {} {}", rels[r.upto(6)], term(r)));
        }
        text = match r.below(5) {
            0 => format!("not ({cmp})"),
            1 => format!("({cmp}) or p(1)"),
            2 => format!("({cmp}) -> q(a)"),
            3 => format!("forall N$i S$s X Y$g ({cmp})"),
            _ => cmp,
        };
    }
    if r.chance(1, 10) {
        // two variables of one sort in one scope whose names differ by the sort tag of the
        // rendering (N and N_i, X and X_g, S and S_s): they must stay two variables
        let (a, b) = [("N$i", "N_i$i"), ("X", "X_g"), ("S$s", "S_s$s"), ("N_i$i", "N_i_i$i")][r.upto(4)];
        let atom = |r: &mut Rng, v: &str| -> String { [format!("p({v})"), format!("q({v})"), format!("{v} != 1"), format!("r({v}, 0)")][r.upto(4)].clone() };
        let rel = ["<", "!=", "=", ">="][r.upto(4)];
        text = match r.below(4) {
            0 => format!("forall {a} {b} ({a} {rel} {b} -> {})", atom(r, a)),
            1 => format!("exists {a} {b} ({} and not {})", atom(r, a), atom(r, b)),
            2 => format!("forall {a} ({} -> exists {b} ({b} {rel} {a} and {}))", atom(r, a), atom(r, b)),
            _ => format!("exists {b} ({} and forall {a} ({} or {a} {rel} {b}))", atom(r, b), atom(r, a)),
        };
    }
    if r.chance(1, 10) {
        // extreme and negative numerals
        let lit = ["-9223372036854775808", "9223372036854775807", "-9223372036854775807", "-1", "-0"][r.upto(5)];
        text = text.replacen(" 1", &format!(" {lit}"), 1).replacen("(2", &format!("({lit}"), 1);
    }
    let f = parse_formula(&text).ok()?;
    guarded(|| close_with_constants(&f)).ok()
}

fn case(cfg: &Config, idx: u64, r: &mut Rng, st: &mut Stats) {
    let Some(f) = gen_case(r, cfg.pick(3, 4)) else {
        st.inc("generator_parse_errors");
        return;
    };
    st.inc("formulas");
    if idx < 3 {
        st.sample(J::obj().set("formula", J::s(f.to_string())).set("tptp", J::s(guarded(|| anthem::formatting::fol::sigma_0::tptp::Format(&f).to_string()).unwrap_or("panic".into()))));
    }
    check_formula(&f, r, cfg.pick(6, 10), st);
}

/// formulas of the problems anthem emits for generated tasks (rendered by Problem's Display)
fn task_case(_cfg: &Config, _idx: u64, r: &mut Rng, st: &mut Stats) {
    use crate::kit::tasks::*;
    if r.chance(1, 2) {
        // external tasks: completed definitions, placeholders as sorted function constants
        let eo = ExtOpts { hostile_identifiers: r.chance(1, 2), ..Default::default() };
        let (t, _) = gen_external(r, &eo);
        let Ok(parsed) = parse_ext(&t) else { return };
        let flags = Flags::random(r);
        if let Built::Ok { problems, .. } = build_external(&parsed, true, flags) {
            st.inc("task_problems_sampled");
            for p in problems.iter().take(2) {
                for (_, _, f) in p.formulas.iter().rev().take(3) {
                    if f.free_variables().is_empty() {
                        st.inc("task_formulas");
                        check_formula(f, r, 3, st);
                    }
                }
            }
        }
        return;
    }
    let so = StrongOpts { hostile_names: r.chance(1, 2), ..Default::default() };
    let (l, rt) = gen_strong_with(r, so);
    let (Ok(lp), Ok(rp)) = (parse_program(&l), parse_program(&rt)) else { return };
    let flags = Flags::random(r);
    if let Built::Ok { problems, .. } = build_strong(&lp, &rp, r.chance(1, 2), flags) {
        st.inc("task_problems_sampled");
        for p in problems.iter().take(2) {
            for (_, _, f) in p.formulas.iter().rev().take(2) {
                st.inc("task_formulas");
                check_formula(f, r, 3, st);
            }
        }
    }
}

fn replay_known(k: &KnownFinding) -> bool {
    let Some(Ok(f)) = k.witness.str("formula").map(|s| s.parse::<fol::Formula>()) else { return false };
    let mut st = Stats::default();
    let mut r = Rng::new(5);
    check_formula(&f, &mut r, 20, &mut st);
    st.violations.iter().any(|v| v.class == k.class)
}

pub fn run(cfg: &Config) -> i32 {
    let started = Instant::now();
    let budget = Duration::from_secs_f64(cfg.pick(35.0, 400.0) * cfg.scale);
    let mut stats = parallel(cfg, "formulas", cfg.scaled(cfg.pick(25_000, 5_000_000)), budget, |idx, r, st| case(cfg, idx, r, st));
    let s2 = parallel(cfg, "tasks", cfg.scaled(cfg.pick(1500, 500_000)), budget / 3, |idx, r, st| task_case(cfg, idx, r, st));
    stats.merge(s2);
    let mut known_replayed = Vec::new();
    for k in load_known(cfg).into_iter().filter(|k| k.property == "C06" && k.status == "open") {
        let still = replay_known(&k);
        known_replayed.push((k, still));
    }
    finish(
        cfg,
        started,
        Outcome {
            stats,
            level: "exploration",
            rule: "random target-language formulas (chained comparisons of length 1-4 under every connective and quantifier, mixed-sort comparisons, negative and extreme numerals, function constants of the three sorts; free variables replaced by fresh function constants) and formulas of problems emitted for generated strong-equivalence tasks; each is rendered by Problem's Display (the --save-problems path), read back by the strict TFF reader and evaluated under the standard interpretation of the preamble symbols against the source formula; a case is one definite comparison, distinct by (formula, interpretation index)".into(),
            assumptions: vec!["strict TFF reader and its standard interpretation of the preamble symbols (kit::tptp) are trusted".into()],
            floor: cfg.pick(50_000, 300_000),
            floor_counter: "definite_comparisons".into(),
            known_replayed,
            extra: J::obj(),
        },
    )
}
