//! C13: a proof outline cannot make an unjustified claim available as an axiom.
use crate::kit::eval::{Assign, Consts, Tv, World, eval_fol};
use crate::kit::generate::{default_pool, value_of_sort};
use crate::kit::ir::Sort;
use crate::kit::json::J;
use crate::kit::rng::Rng;
use crate::kit::tasks::*;
use crate::kit::value::{Ext, Interp, Value};
use crate::monitors::c02::{TaskCtx, make_ctx, replace_placeholders};
use crate::monitors::common::*;
use crate::run::{Config, Outcome, Stats, finish, guarded, parallel};
use anthem::syntax_tree::fol::sigma_0 as fol;
use std::collections::{BTreeMap, BTreeSet};
use std::time::{Duration, Instant};

#[derive(Clone, Debug)]
struct Entry {
    role: &'static str, // "lemma" | "inductive-lemma" | "definition"
    dir: Dir,
    name: String,
    text: String,
    /// for inductive lemmas: (n, F text)
    induction: Option<(i64, String)>,
}

fn dir_ann(d: Dir, r: &mut Rng) -> &'static str {
    match d {
        Dir::Universal => {
            if r.chance(1, 2) {
                ""
            } else {
                "(universal)"
            }
        }
        Dir::Forward => "(forward)",
        Dir::Backward => "(backward)",
    }
}

fn small_formula(r: &mut Rng, preds: &[(String, usize)], vars: &[&str]) -> String {
    let atom = |r: &mut Rng| -> String {
        if preds.is_empty() || r.chance(1, 4) {
            let v = vars[r.upto(vars.len())];
            return format!("{} {} {}", v, ["=", "!=", "<", ">="][r.upto(4)], r.range(0, 3));
        }
        let (p, n) = &preds[r.upto(preds.len())];
        if *n == 0 {
            p.clone()
        } else {
            let args: Vec<String> = (0..*n).map(|_| if r.chance(3, 4) { vars[r.upto(vars.len())].to_string() } else { format!("{}", r.range(0, 2)) }).collect();
            format!("{}({})", p, args.join(", "))
        }
    };
    match r.below(6) {
        0 => format!("{} and {}", atom(r), atom(r)),
        1 => format!("{} or {}", atom(r), atom(r)),
        2 => format!("not {}", atom(r)),
        3 => format!("({} -> {})", atom(r), atom(r)),
        _ => atom(r),
    }
}

fn gen_outline(r: &mut Rng, t: &TaskCtx) -> Vec<Entry> {
    let mut preds: Vec<(String, usize)> = t.inputs.iter().chain(t.outputs.iter()).cloned().collect();
    let mut entries = Vec::new();
    let n = 1 + r.upto(4);
    for k in 0..n {
        let dir = [Dir::Universal, Dir::Universal, Dir::Forward, Dir::Backward][r.upto(4)];
        match r.below(4) {
            0 => {
                let arity = 1 + r.upto(2);
                let vars: Vec<&str> = ["X", "Y"][..arity].to_vec();
                let body = small_formula(r, &preds, &vars);
                let name = format!("dn{k}");
                let pname = format!("def{k}");
                let text = format!("forall {} ({}({}) <-> {})", vars.join(" "), pname, vars.join(", "), body);
                entries.push(Entry { role: "definition", dir, name, text, induction: None });
                preds.push((pname, arity));
            }
            1 => {
                // inductive lemma; N may also be bound inside F, extra free variables, negative n
                let nn = r.range(-2, 2);
                let unary: Vec<&(String, usize)> = preds.iter().filter(|(_, a)| *a == 1).collect();
                let f = match r.below(6) {
                    0 if !unary.is_empty() => format!("{}(N$i)", unary[r.upto(unary.len())].0),
                    1 if !unary.is_empty() => format!("({}(N$i) or N$i > {})", unary[r.upto(unary.len())].0, nn + 2),
                    2 if !unary.is_empty() => format!("({}(N$i) and forall N$i (N$i = N$i))", unary[r.upto(unary.len())].0),
                    3 if preds.iter().any(|(_, a)| *a == 2) => {
                        let (p, _) = preds.iter().find(|(_, a)| *a == 2).unwrap();
                        format!("{}(N$i, X)", p)
                    }
                    4 => format!("N$i * N$i >= {}", r.range(-1, 1)),
                    5 if r.chance(1, 2) => {
                        // a general variable with the name of the induction variable
                        // (false claims whose base and step become valid when the general N is taken for
                        // the induction variable)
                        [format!("(N = {nn} or N = N$i + 1)"), format!("(N = {nn} or N > N$i)"), format!("(N = N$i)")][r.upto(3)].clone()
                    }
                    _ => format!("N$i >= {}", nn - r.range(0, 1)),
                };
                let name = format!("in{k}");
                // now and then an antecedent that is a comparison chain (not of the form N >= n)
                let text = if f.contains("N =") || f.contains("N !=") {
                    match r.below(3) {
                        0 => format!("forall N N$i (N$i >= {nn} -> {f})"),
                        1 => format!("forall N$i (N$i >= {nn} -> {f})"),
                        _ => format!("N$i >= {nn} -> {f}"),
                    }
                } else if r.chance(1, 8) {
                    let rel = ["!=", "<", ">=", "="][r.upto(4)];
                    let t2 = ["N$i".to_string(), format!("{}", nn + 1), "N$i + 1".to_string()][r.upto(3)].clone();
                    format!("N$i >= {nn} {rel} {t2} -> {f}")
                } else {
                    format!("N$i >= {nn} -> {f}")
                };
                entries.push(Entry { role: "inductive-lemma", dir, name, text, induction: Some((nn, f)) });
            }
            _ => {
                let vars = ["X", "Y"];
                let name = format!("ln{k}");
                let text = small_formula(r, &preds, &vars);
                entries.push(Entry { role: "lemma", dir, name, text, induction: None });
            }
        }
    }
    entries
}

fn outline_text(es: &[Entry], r: &mut Rng) -> String {
    es.iter().map(|e| format!("{}{}[{}]: {}.", e.role, dir_ann(e.dir, r), e.name, e.text)).collect::<Vec<_>>().join("\n")
}

fn applies(e: &Entry, d: Dir) -> bool {
    e.dir == Dir::Universal || e.dir == d
}

/// history check of one direction
fn check_sequence(t: &TaskCtx, entries: &[Entry], d: Dir, problems: &[ProblemData], premises: &BTreeSet<String>, origin: &J, st: &mut Stats) {
    let prefix = if d == Dir::Forward { "forward" } else { "backward" };
    let lemmas: Vec<&Entry> = entries.iter().filter(|e| e.role != "definition" && applies(e, d)).collect();
    let defs: Vec<&Entry> = entries.iter().filter(|e| e.role == "definition" && applies(e, d)).collect();
    let ps: Vec<(usize, &ProblemData)> = problems.iter().enumerate().filter(|(_, p)| p.name.starts_with(prefix)).collect();
    // expected obligations of every lemma
    for (i, l) in lemmas.iter().enumerate() {
        let want = if l.role == "lemma" { 1 } else { 2 };
        let got = ps.iter().filter(|(_, p)| p.name.starts_with(&format!("{prefix}_outline_{i}_"))).count();
        st.inc("lemma_obligation_checks");
        if got != want {
            st.eval(None);
            st.violation(
                "lemma-obligations-missing",
                format!("{prefix}: lemma {} ({}) has {got} obligation problems, expected {want}", l.name, l.role),
                origin.clone(),
            );
            return;
        }
    }
    let closure = |text: &str| -> Option<fol::Formula> {
        let f: fol::Formula = text.parse().ok()?;
        let f = replace_placeholders(&f, &t.placeholders);
        guarded(|| f.universal_closure_with_quantifier_joining()).ok()
    };
    let lemma_formulas: Vec<Option<fol::Formula>> = lemmas.iter().map(|l| closure(&l.text)).collect();
    let def_formulas: Vec<Option<fol::Formula>> = defs.iter().map(|l| l.text.parse::<fol::Formula>().ok().map(|f| replace_placeholders(&f, &t.placeholders))).collect();
    let mut established_conjectures: Vec<fol::Formula> = Vec::new();
    for (pos, (_, p)) in ps.iter().enumerate() {
        for a in p.axioms() {
            st.inc("axiom_justification_checks");
            let key = a.to_string();
            if premises.contains(&key) {
                continue;
            }
            if def_formulas.iter().any(|d| d.as_ref() == Some(a)) {
                st.inc("axioms_justified_as_definition");
                continue;
            }
            if let Some(i) = lemma_formulas.iter().position(|l| l.as_ref() == Some(a)) {
                // every obligation problem of lemma i must have been emitted earlier
                let obligations: Vec<usize> = ps.iter().enumerate().filter(|(_, (_, q))| q.name.starts_with(&format!("{prefix}_outline_{i}_"))).map(|(k, _)| k).collect();
                if obligations.iter().all(|k| *k < pos) && !obligations.is_empty() {
                    st.inc("axioms_justified_as_established_lemma");
                    continue;
                }
                st.eval(None);
                st.violation(
                    "lemma-used-before-established",
                    format!("{prefix}: problem {} uses lemma {} as an axiom before (or without) the problems that establish it", p.name, lemmas[i].name),
                    origin.clone().set("problem", J::s(&p.name)),
                );
                return;
            }
            if established_conjectures.contains(a) {
                st.inc("axioms_justified_as_earlier_conclusion");
                continue;
            }
            st.eval(None);
            st.violation(
                "unjustified-axiom",
                format!("{prefix}: problem {} has the axiom `{a}` which is neither a premise, an accepted definition, an established lemma nor an earlier conclusion", p.name),
                origin.clone().set("problem", J::s(&p.name)).set("axiom", J::s(key)),
            );
            return;
        }
        // conjectures of the final problems become available to later final problems only
        if p.name.starts_with(&format!("{prefix}_problem")) {
            established_conjectures.extend(p.conjectures().cloned());
        }
        // the conjecture of an outline problem must be the lemma (or its base/step), nothing else
        if let Some(rest) = p.name.strip_prefix(&format!("{prefix}_outline_")) {
            let i: usize = rest.split('_').next().and_then(|s| s.parse().ok()).unwrap_or(usize::MAX);
            if i >= lemmas.len() {
                st.violation("outline-problem-without-lemma", format!("problem {} does not correspond to an outline entry", p.name), origin.clone());
                return;
            }
            if lemmas[i].role == "lemma" {
                let c: Vec<&fol::Formula> = p.conjectures().collect();
                if c.len() != 1 || Some(c[0]) != lemma_formulas[i].as_ref() {
                    st.eval(None);
                    st.violation("lemma-conjecture-differs", format!("problem {} does not have the lemma {} as its conjecture", p.name, lemmas[i].name), origin.clone());
                    return;
                }
            }
        }
        st.eval(Some(&format!("{}|{}", origin.compact(), p.name)));
    }
}

/// induction: on interpretations where the emitted base and step are true, F[N := k] is never false
fn check_induction(t: &TaskCtx, entries: &[Entry], d: Dir, problems: &[ProblemData], r: &mut Rng, origin: &J, st: &mut Stats) {
    let prefix = if d == Dir::Forward { "forward" } else { "backward" };
    let lemmas: Vec<&Entry> = entries.iter().filter(|e| e.role != "definition" && applies(e, d)).collect();
    for (i, l) in lemmas.iter().enumerate() {
        let Some((n, ftext)) = &l.induction else { continue };
        let obligations: Vec<&ProblemData> = problems.iter().filter(|p| p.name.starts_with(&format!("{prefix}_outline_{i}_"))).collect();
        if obligations.len() != 2 {
            continue;
        }
        let conj: Vec<fol::Formula> = obligations.iter().flat_map(|p| p.conjectures().cloned()).collect();
        // what becomes available as an axiom is the lemma as written (antecedent -> F)
        let _ = ftext;
        let Ok(f) = l.text.parse::<fol::Formula>() else { continue };
        let f = replace_placeholders(&f, &t.placeholders);
        // the lemma is universally closed: leading universal quantifiers are stripped and their
        // variables assigned like the free ones (one false instance refutes the lemma)
        let f = {
            let mut g = f;
            while let fol::Formula::QuantifiedFormula { quantification, formula } = &g {
                if quantification.quantifier != fol::Quantifier::Forall {
                    break;
                }
                g = (**formula).clone();
            }
            g
        };
        let preds = formula_preds(&f);
        let pool = default_pool();
        for _ in 0..12 {
            // extents biased to "true from some point on"
            let mut interp = Interp::default();
            for (p, a) in &preds {
                let mut e = Ext { exc: BTreeSet::new(), default: r.chance(2, 3) };
                let m = n + r.range(-2, 3);
                if *a == 1 {
                    for k in (n - 4)..(n + 16) {
                        let inside = k >= m;
                        let flip = r.chance(1, 12);
                        if (inside != e.default) != flip {
                            e.exc.insert(vec![Value::Int(k as i128)]);
                        }
                    }
                } else if *a == 2 {
                    for k in (n - 2)..(n + 14) {
                        if (k >= m) != e.default {
                            for x in &pool[..4] {
                                e.exc.insert(vec![Value::Int(k as i128), x.clone()]);
                            }
                        }
                    }
                }
                interp.preds.insert((p.clone(), *a), e);
            }
            let mut consts = Consts::new();
            for (pn, s) in &t.placeholders {
                consts.insert((pn.clone(), *s), value_of_sort(r, &pool, *s));
            }
            let base = eval_fol(&conj[0], &interp, &interp, &consts, &Assign::new(), World::C).0;
            let step = eval_fol(&conj[1], &interp, &interp, &consts, &Assign::new(), World::C).0;
            st.inc("induction_interpretations");
            if base != Tv::T || step != Tv::T {
                st.inc("induction_obligations_not_both_true");
                continue;
            }
            st.inc("induction_interpretations_with_both_obligations_true");
            for k in (*n - 3)..(*n + 13) {
                let mut a = Assign::new();
                a.insert(("N".into(), Sort::I), Value::Int(k as i128));
                for v in f.free_variables() {
                    let s = sort_of(v.sort);
                    a.entry((v.name.clone(), s)).or_insert_with(|| value_of_sort(r, &pool, s));
                }
                let v = eval_fol(&f, &interp, &interp, &consts, &a, World::C).0;
                st.inc("induction_instances_checked");
                if l.text.contains("N =") || l.text.contains("N !=") {
                    st.inc(&format!("induction_instances_with_general_N_{v:?}"));
                }
                match v {
                    Tv::F => {
                        st.eval(None);
                        st.violation(
                            "induction-unsound",
                            format!("inductive lemma {}: base and step are true but the lemma is false for N = {k}", l.name),
                            origin.clone().set("lemma", J::s(&l.text)).set("base", J::s(conj[0].to_string())).set("step", J::s(conj[1].to_string())).set("I", interp_json(&interp)),
                        );
                        return;
                    }
                    _ => st.eval(Some(&format!("{}|{k}|{}", l.text, interp_json(&interp).compact()))),
                }
            }
        }
    }
}

/// Candidate definitions built from independent features, with at most one defect, and the
/// monitor's own acceptance rule (written from the statement): `forall L (p(A) <-> B)` with L
/// distinct variables, A exactly the variables of L, p occurring nowhere in the task nor in an
/// earlier entry, B closed under L and mentioning only predicates of the task / earlier entries.
fn definition_candidate(r: &mut Rng, t: &TaskCtx) -> (String, Option<&'static str>) {
    let mut taken: Vec<(String, usize)> = t.inputs.iter().chain(t.outputs.iter()).cloned().collect();
    taken.extend(t.left_privates.iter().cloned());
    taken.extend(t.right_privates.iter().cloned());
    let unary: Vec<&(String, usize)> = taken.iter().filter(|(_, a)| *a == 1).collect();
    let binary: Vec<&(String, usize)> = taken.iter().filter(|(_, a)| *a == 2).collect();
    let body_over = |vars: &[&str], r: &mut Rng| -> String {
        let mut parts: Vec<String> = Vec::new();
        for v in vars {
            match r.below(3) {
                0 if !unary.is_empty() => parts.push(format!("{}({v})", unary[r.upto(unary.len())].0)),
                1 if !binary.is_empty() && vars.len() >= 2 => parts.push(format!("{}({}, {})", binary[r.upto(binary.len())].0, vars[0], vars[1])),
                _ => parts.push(format!("{v} {} {}", ["=", "!=", ">"][r.upto(3)], r.range(0, 3))),
            }
        }
        if parts.is_empty() { "1 = 1".into() } else { parts.join([" and ", " or "][r.upto(2)]) }
    };
    let arity = 1 + r.upto(2);
    let vars: Vec<&str> = ["X", "Y"][..arity].to_vec();
    let head_args = vars.join(", ");
    let quant = vars.join(" ");
    let good_body = body_over(&vars, r);
    let shared: Vec<&(String, usize)> = t.left_privates.iter().filter(|p| t.right_privates.contains(p) && p.1 > 0).collect();
    if !shared.is_empty() && r.chance(1, 3) {
        // the right program's copy of a private predicate shared by both sides is renamed q_p in
        // the problems; that name occurs in the task as well
        let (q, a) = shared[r.upto(shared.len())];
        let vs: Vec<String> = (0..*a).map(|i| format!("X{i}")).collect();
        return (format!("definition[d]: forall {} ({}_p({}) <-> {} = 1).", vs.join(" "), q, vs.join(", "), vs[0]), Some("predicate-taken-by-renamed-private"));
    }
    let defect = r.below(15);
    match defect {
        14 => {
            // a predicate the preamble of every problem defines: not fresh
            let (p, a) = [("p__less_equal__", 2), ("p__less__", 2), ("p__is_integer__", 1), ("p__is_symbolic__", 1), ("p__greater__", 2)][r.upto(5)];
            let vs: Vec<String> = (0..a).map(|i| format!("X{i}")).collect();
            (format!("definition[d]: forall {} ({p}({}) <-> {}).", vs.join(" "), vs.join(", "), ["#false", "#true", "X0 = 1"][r.upto(3)]), Some("predicate-taken-by-preamble"))
        }
        2 if r.chance(1, 2) => {
            // the body leaves quantified variables unused and mentions a free one instead
            let atom = if !unary.is_empty() { format!("{}(W)", unary[r.upto(unary.len())].0) } else { "W = 1".to_string() };
            (format!("definition[d]: forall X Y (fresh(X, Y) <-> {atom})."), Some("free-variable-in-body"))
        }
        0 => (format!("definition[d]: forall {quant} (fresh({head_args}) <-> {good_body})."), None),
        1 => (format!("definition(forward)[d]: forall {quant} (fresh({head_args}) <-> {good_body} and exists Z (Z = {})).", vars[0]), None),
        2 => (format!("definition[d]: forall {quant} (fresh({head_args}) <-> {good_body} and W = W)."), Some("free-variable-in-body")),
        3 => (format!("definition[d]: forall {quant} {} (fresh({head_args}, {}) <-> {good_body}).", vars[0], vars[0]), Some("repeated-variable")),
        4 => (format!("definition[d]: forall {quant} (fresh({head_args}, 1) <-> {good_body})."), Some("non-variable-argument")),
        5 if !taken.is_empty() => {
            let (p, a) = taken[r.upto(taken.len())].clone();
            if a == 0 {
                return (format!("definition[d]: forall X (fresh(X) <-> X = 1 and {p})."), None);
            }
            let vs: Vec<String> = (0..a).map(|i| format!("X{i}")).collect();
            (format!("definition[d]: forall {} ({}({}) <-> {} = 1).", vs.join(" "), p, vs.join(", "), vs[0]), Some("predicate-taken-by-task"))
        }
        6 => (format!("definition[d1]: forall X (fresh(X) <-> X = 1).\ndefinition[d2]: forall {quant} (fresh({head_args}) <-> {good_body})."), if arity == 1 { Some("predicate-taken-by-earlier-entry") } else { None }),
        7 => ("definition[d1]: forall X (fresh(X) <-> later(X)).\ndefinition[d2]: forall X (later(X) <-> X = 2).".into(), Some("body-mentions-later-predicate")),
        8 => (format!("definition[d]: forall {quant} (fresh({head_args}) -> {good_body})."), Some("not-an-equivalence")),
        9 => {
            // a quantified variable that is not an argument of the defined atom but occurs in the body
            let extra_body = if !binary.is_empty() { format!("{}({}, E)", binary[r.upto(binary.len())].0, vars[0]) } else { format!("{} < E", vars[0]) };
            (format!("definition[d]: forall {quant} E (fresh({head_args}) <-> {extra_body})."), Some("quantified-variable-missing-from-head"))
        }
        10 => {
            // a head argument that is not quantified (free in the head)
            (format!("definition[d]: forall {} (fresh({head_args}, F) <-> {good_body}).", quant), Some("head-variable-not-quantified"))
        }
        11 if r.chance(1, 2) => {
            // ... while a quantified variable stays unused in the body (anthem only warns about
            // that; the other conditions must be checked all the same)
            [
                ("definition[d]: forall X (fresh(X) <-> not fresh(1)).".to_string(), Some("body-mentions-the-defined-predicate")),
                ("definition[d]: forall X Y (fresh(X, Y) <-> undefinedpred(X)).".to_string(), Some("body-mentions-undefined-predicate")),
                ("definition[d1]: forall X Y (fresh(X, Y) <-> later(X)).\ndefinition[d2]: forall X (later(X) <-> X = 2).".to_string(), Some("body-mentions-later-predicate")),
            ][r.upto(3)]
            .clone()
        }
        11 => (format!("definition[d]: forall {quant} (fresh({head_args}) <-> {good_body} and undefinedpred({}))).", vars[0]).replace(")))", "))"), Some("body-mentions-undefined-predicate")),
        12 => (format!("definition[d]: forall {quant} ({good_body} <-> fresh({head_args}))."), Some("defined-atom-on-the-right")),
        _ => {
            // same name at another sort in head and quantifier
            (format!("definition[d]: forall X$i (fresh(X) <-> X$i = 1)."), Some("head-variable-of-another-sort"))
        }
    }
}

fn case(cfg: &Config, idx: u64, r: &mut Rng, st: &mut Stats) {
    let (mut texts, _sig) = gen_external(r, &ExtOpts::default());
    let Ok(t0) = make_ctx(texts.clone()) else { return };
    let flags = Flags::random(r);
    // premises of both directions from the empty-outline build
    let base = match build_external(&t0.parsed, true, Flags { direction: Dir::Universal, ..flags }) {
        Built::Ok { problems, .. } => problems,
        _ => {
            st.inc("tasks_refused_or_lost");
            return;
        }
    };
    if idx % 4 == 3 {
        // definition acceptance
        let (po, defect) = definition_candidate(r, &t0);
        texts.po = po.clone();
        let Ok(t) = make_ctx(texts.clone()) else {
            st.inc("definition_candidate_not_parsed");
            return;
        };
        st.inc("definition_candidates");
        match (defect, build_external(&t.parsed, true, flags)) {
            (None, Built::Ok { .. }) => {
                st.inc("well_formed_definitions_accepted");
                st.eval(Some(&format!("{po}|{}", texts.ug)));
            }
            (None, Built::Refused(_)) => st.inc("well_formed_definitions_refused_for_another_reason"),
            (Some(class), Built::Refused(_)) => {
                st.inc("bad_definitions_refused");
                st.inc(&format!("bad_definition_{class}"));
                st.eval(Some(&format!("{po}|{}", texts.ug)));
            }
            (Some(class), Built::Ok { problems, .. }) => {
                st.eval(None);
                st.violation(
                    format!("definition-accepted:{class}"),
                    format!("a definition violating `{class}` was accepted ({} problems emitted)", problems.len()),
                    crate::monitors::c09::origin_ext(&texts, flags),
                );
            }
            (_, Built::Panic(p)) => st.violation("definition-panic", format!("panic: {p}"), crate::monitors::c09::origin_ext(&texts, flags)),
        }
        return;
    }
    let entries = gen_outline(r, &t0);
    texts.po = outline_text(&entries, r);
    let Ok(t) = make_ctx(texts.clone()) else {
        st.inc("outline_not_parsed");
        return;
    };
    let problems = match build_external(&t.parsed, true, flags) {
        Built::Ok { problems, .. } => problems,
        Built::Refused(e) => {
            st.inc("outline_tasks_refused");
            if idx < 50 {
                let _ = e;
            }
            return;
        }
        Built::Panic(_) => {
            st.inc("lost_to_panic");
            return;
        }
    };
    st.inc("outline_tasks");
    st.add("outline_entries", entries.len() as u64);
    let origin = crate::monitors::c09::origin_ext(&texts, flags);
    if idx < 3 {
        st.sample(origin.clone().set("problems", J::Arr(problems.iter().map(|p| J::s(&p.name)).collect())));
    }
    for (d, prefix) in [(Dir::Forward, "forward"), (Dir::Backward, "backward")] {
        if flags.direction != Dir::Universal && flags.direction != d {
            continue;
        }
        let premises: BTreeSet<String> = base
            .iter()
            .filter(|p| p.name.starts_with(&format!("{prefix}_problem")))
            .flat_map(|p| p.formulas.iter().map(|(_, _, f)| f.to_string()))
            .collect::<BTreeSet<_>>();
        // axioms only: the conjectures of the empty-outline run are conclusions, not premises
        let mut prem_axioms: BTreeSet<String> = BTreeSet::new();
        if let Some(first) = base.iter().find(|p| p.name.starts_with(&format!("{prefix}_problem"))) {
            prem_axioms.extend(first.axioms().map(|f| f.to_string()));
        } else {
            // no conclusions in this direction: premises are unknown, take every axiom of the
            // outline problems that is not from the outline as unverifiable -> skip direction
            let _ = premises;
            st.inc("directions_without_conclusions_skipped");
            continue;
        }
        check_sequence(&t, &entries, d, &problems, &prem_axioms, &origin, st);
        check_induction(&t, &entries, d, &problems, r, &origin, st);
    }
    let _ = BTreeMap::<u8, u8>::new();
}

/// known-finding witness: an external task whose outline holds a definition that must be refused
fn replay_known(k: &crate::run::KnownFinding) -> bool {
    let w = &k.witness;
    let texts = ExtTexts {
        left: either::Either::Left(w.str("left").unwrap_or("").to_string()),
        right: w.str("right").unwrap_or("").to_string(),
        ug: w.str("user_guide").unwrap_or("").to_string(),
        po: w.str("proof_outline").unwrap_or("").to_string(),
    };
    let Ok(t) = make_ctx(texts) else { return false };
    let flags = Flags { sequential: true, direction: Dir::Universal, simplify: true, break_equivalences: true };
    matches!(build_external(&t.parsed, true, flags), Built::Ok { .. })
}

pub fn run(cfg: &Config) -> i32 {
    let started = Instant::now();
    let mut known_replayed = Vec::new();
    for k in crate::run::load_known(cfg).into_iter().filter(|k| k.property == "C13" && k.status == "open") {
        let still = replay_known(&k);
        known_replayed.push((k, still));
    }
    let budget = Duration::from_secs_f64(cfg.pick(45.0, 420.0) * cfg.scale);
    let stats = parallel(cfg, "main", cfg.scaled(cfg.pick(40_000, 2_000_000)), budget, |idx, r, st| case(cfg, idx, r, st));
    finish(
        cfg,
        started,
        Outcome {
            stats,
            level: "exploration",
            rule: "generated external tasks with proof outlines (1-4 entries: definitions, lemmas with free variables, inductive lemmas with negative n / N rebound inside F / extra free variables; every direction annotation) under random flags; (1) history check over the emitted problem list: every axiom must be a premise of the direction (axioms of the same task built with an empty outline), an accepted definition, a lemma whose obligation problems were all emitted earlier, or an earlier conclusion; (2) induction: on interpretations where the emitted base and step evaluate to true, F[N:=k] must not be false for k in n..n+12; (3) outlines with a definition violating one acceptance condition (15 classes, among them a predicate of the preamble) must be refused; a case is one checked problem / induction instance / refused definition".into(),
            assumptions: vec!["formula identity is by syntax tree; universal closure of lemma formulas uses anthem's own closure function for matching only".into()],
            floor: cfg.pick(100_000, 500_000),
            floor_counter: "axiom_justification_checks".into(),
            known_replayed,
            extra: J::obj(),
        },
    )
}
