//! C16: any input text leads to a result or a reported error, never a crash.
//! Observation: the real binaries (release and dev profile) in a subprocess per (command, input);
//! a fast in-process pre-filter (catch_unwind around the same library calls) selects candidates.
use crate::kit::generate::{FolOpts, ProgOpts, gen_formula, gen_program};
use crate::kit::json::J;
use crate::kit::rng::Rng;
use crate::kit::tasks::*;
use crate::monitors::common::*;
use crate::monitors::roundtrip::{gen_flat_formula, gen_flat_rule};
use crate::run::{Config, KnownFinding, Outcome, Stats, finish, guarded, last_panic_location, load_known, parallel, scratch_dir};
use anthem::syntax_tree::{asp::mini_gringo as asp, fol::sigma_0 as fol};
use either::Either;
use std::path::{Path, PathBuf};
use std::process::{Command, Stdio};
use std::time::{Duration, Instant};

#[derive(Clone, Debug, PartialEq)]
pub enum Kind {
    Program,
    Theory,
    Specification,
    UserGuide,
}

#[derive(Clone, Debug)]
pub struct Cmd {
    pub name: String,
    pub args: Vec<String>,
    pub kind: Kind,
}

pub fn single_file_commands() -> Vec<Cmd> {
    let mut v = Vec::new();
    let c = |name: &str, args: &[&str], kind: Kind| Cmd { name: name.to_string(), args: args.iter().map(|s| s.to_string()).collect(), kind };
    v.push(c("parse-program", &["parse", "--as", "program", "--output", "default"], Kind::Program));
    v.push(c("parse-program-debug", &["parse", "--as", "program"], Kind::Program));
    v.push(c("parse-theory", &["parse", "--as", "theory", "--output", "default"], Kind::Theory));
    v.push(c("parse-specification", &["parse", "--as", "specification", "--output", "default"], Kind::Specification));
    v.push(c("parse-user-guide", &["parse", "--as", "user-guide", "--output", "default"], Kind::UserGuide));
    for w in ["tau-star", "mu", "natural"] {
        v.push(c(&format!("translate-{w}"), &["translate", "--with", w], Kind::Program));
    }
    for w in ["gamma", "completion"] {
        v.push(c(&format!("translate-{w}"), &["translate", "--with", w], Kind::Theory));
    }
    for p in ["classic", "ht", "intuitionistic"] {
        for s in ["shallow", "recursive", "fixpoint"] {
            v.push(c(&format!("simplify-{p}-{s}"), &["simplify", "--portfolio", p, "--strategy", s], Kind::Theory));
        }
    }
    for p in ["tightness", "regularity"] {
        v.push(c(&format!("analyze-{p}"), &["analyze", "--property", p], Kind::Program));
    }
    v
}

#[derive(Debug, Clone, PartialEq)]
pub enum Class {
    Ok,
    ReportedError,
    Panic(String),
    Abort(String),
    Hang,
    Inconclusive(String),
}

/// runs `bin args..` with a CPU-time limit (logical bound, independent of machine load) and a
/// generous wall-clock watchdog whose firing is inconclusive
pub fn run_limited(bin: &Path, args: &[String], cwd: Option<&Path>, cpu_s: u32) -> Class {
    run_limited_stdin(bin, args, cwd, cpu_s, None)
}

/// directory holding a stand-in `vampire` (prepended to PATH of every subprocess once set)
pub static PROVER_DIR: std::sync::OnceLock<PathBuf> = std::sync::OnceLock::new();
pub static SLOW_BUT_TERMINATING: std::sync::atomic::AtomicU64 = std::sync::atomic::AtomicU64::new(0);
static CONFIRMED_HANGS: std::sync::atomic::AtomicU64 = std::sync::atomic::AtomicU64::new(0);
static EXTENDED_RUNS: std::sync::atomic::AtomicU64 = std::sync::atomic::AtomicU64::new(0);

/// same, with the input given on stdin (the commands read stdin when no file is named). A run
/// that exceeds the CPU-time limit is repeated once with ten times the limit: only a run that
/// exceeds that as well is a hang (an input that is merely slow, e.g. 400 nested unary minus
/// signs in the unoptimised build, terminates within it). After three confirmed hangs further
/// limit-exceeders are not re-run and count as inconclusive.
pub fn run_limited_stdin(bin: &Path, args: &[String], cwd: Option<&Path>, cpu_s: u32, stdin: Option<&Path>) -> Class {
    use std::sync::atomic::Ordering;
    match run_once(bin, args, cwd, cpu_s, stdin) {
        Class::Hang => {
            // at most three extended re-runs per check (they may run side by side)
            if CONFIRMED_HANGS.load(Ordering::Relaxed) >= 3 || EXTENDED_RUNS.fetch_add(1, Ordering::Relaxed) >= 3 {
                return Class::Inconclusive("exceeded the CPU-time limit; not re-run with the extended limit (three extended re-runs per check)".into());
            }
            match run_once(bin, args, cwd, cpu_s * 10, stdin) {
                Class::Hang => {
                    CONFIRMED_HANGS.fetch_add(1, Ordering::Relaxed);
                    Class::Hang
                }
                other => {
                    // a slow input does not use up the allowance
                    SLOW_BUT_TERMINATING.fetch_add(1, Ordering::Relaxed);
                    EXTENDED_RUNS.fetch_sub(1, Ordering::Relaxed);
                    other
                }
            }
        }
        c => c,
    }
}

fn run_once(bin: &Path, args: &[String], cwd: Option<&Path>, cpu_s: u32, stdin: Option<&Path>) -> Class {
    let mut sh = Command::new("sh");
    // CPU-time limit, no core files, and 4 GB of address space: an input that makes anthem
    // allocate without bound dies of a failed allocation (an abort) instead of exhausting the
    // machine's memory
    let mut script = format!("ulimit -t {cpu_s}; ulimit -c 0; ulimit -v 4194304; exec \"$0\" \"$@\"");
    if false {
        script.push(' ');
    }
    sh.arg("-c").arg(script).arg(bin).args(args).stdout(Stdio::piped()).stderr(Stdio::piped());
    match stdin.and_then(|p| std::fs::File::open(p).ok()) {
        Some(f) => {
            sh.stdin(Stdio::from(f));
        }
        None => {
            sh.stdin(Stdio::null());
        }
    }
    if let Some(d) = cwd {
        sh.current_dir(d);
    }
    if let Some(p) = PROVER_DIR.get() {
        sh.env("PATH", format!("{}:{}", p.display(), std::env::var("PATH").unwrap_or_default()));
        sh.env_remove("AVM_PLAN");
        sh.env_remove("AVM_LOG");
    }
    let started = Instant::now();
    let mut child = match sh.spawn() {
        Ok(c) => c,
        Err(e) => return Class::Inconclusive(format!("spawn: {e}")),
    };
    let pid = child.id();
    crate::run::child_started(pid);
    struct Done(u32);
    impl Drop for Done {
        fn drop(&mut self) {
            crate::run::child_finished(self.0);
        }
    }
    let _done = Done(pid);
    // read the pipes in threads so that a chatty child cannot block
    let mut so = child.stdout.take().unwrap();
    let mut se = child.stderr.take().unwrap();
    let t1 = std::thread::spawn(move || {
        let mut b = Vec::new();
        let _ = std::io::Read::read_to_end(&mut so, &mut b);
        b
    });
    let t2 = std::thread::spawn(move || {
        let mut b = Vec::new();
        let _ = std::io::Read::read_to_end(&mut se, &mut b);
        b
    });
    let status = loop {
        match child.try_wait() {
            Ok(Some(s)) => break s,
            Ok(None) => {
                if started.elapsed() > Duration::from_secs(cpu_s as u64 * 6 + 30) {
                    let _ = child.kill();
                    let _ = child.wait();
                    return Class::Inconclusive("wall-clock watchdog".into());
                }
                std::thread::sleep(Duration::from_millis(2));
            }
            Err(e) => return Class::Inconclusive(format!("wait: {e}")),
        }
    };
    let _stdout = t1.join().unwrap_or_default();
    let stderr = String::from_utf8_lossy(&t2.join().unwrap_or_default()).to_string();
    use std::os::unix::process::ExitStatusExt;
    if let Some(sig) = status.signal() {
        // SIGXCPU = 24, SIGKILL after the hard limit = 9
        if sig == 24 || (sig == 9 && started.elapsed() > Duration::from_secs(cpu_s as u64 / 2)) {
            return Class::Hang;
        }
        return Class::Abort(format!("signal {sig}"));
    }
    let code = status.code().unwrap_or(-1);
    if stderr.contains("panicked at") || code == 101 {
        let loc = stderr
            .lines()
            .find(|l| l.contains("panicked at"))
            .and_then(|l| l.split("panicked at ").nth(1))
            .map(|s| {
                let mut parts = s.trim_end_matches(':').split(':');
                let file = parts.next().unwrap_or("?");
                let line = parts.next().unwrap_or("?");
                format!("{file}:{line}")
            })
            .unwrap_or("?".into());
        return Class::Panic(loc);
    }
    if code == 134 || stderr.contains("stack overflow") || stderr.contains("has overflowed its stack") {
        return Class::Abort("stack overflow / abort".into());
    }
    if code == 0 {
        Class::Ok
    } else if stderr.trim().is_empty() {
        Class::Abort(format!("exit status {code} without an error message"))
    } else {
        Class::ReportedError
    }
}

// ------------------------------------------------------------------------------------------
// inputs

pub fn corpus() -> Vec<(Kind, String)> {
    let mut out = Vec::new();
    fn walk(d: &Path, out: &mut Vec<(Kind, String)>) {
        let Ok(rd) = std::fs::read_dir(d) else { return };
        let mut entries: Vec<PathBuf> = rd.filter_map(|e| e.ok()).map(|e| e.path()).collect();
        entries.sort();
        for p in entries {
            if p.is_dir() {
                walk(&p, out);
            } else if let Some(ext) = p.extension().and_then(|e| e.to_str()) {
                let kind = match ext {
                    "lp" => Kind::Program,
                    "spec" | "po" => Kind::Specification,
                    "ug" => Kind::UserGuide,
                    _ => continue,
                };
                if let Ok(s) = std::fs::read_to_string(&p) {
                    if s.len() < 4096 {
                        out.push((kind, s));
                    }
                }
            }
        }
    }
    walk(Path::new("/repo/res/examples"), &mut out);
    out
}

fn tokens(s: &str) -> Vec<String> {
    let mut v = Vec::new();
    let mut cur = String::new();
    for c in s.chars() {
        if c.is_alphanumeric() || c == '_' || c == '$' || c == '#' {
            cur.push(c);
        } else {
            if !cur.is_empty() {
                v.push(std::mem::take(&mut cur));
            }
            v.push(c.to_string());
        }
    }
    if !cur.is_empty() {
        v.push(cur);
    }
    v
}

pub fn mutate(r: &mut Rng, text: &str) -> String {
    let mut toks = tokens(text);
    if toks.is_empty() {
        return text.to_string();
    }
    let n = 1 + r.upto(3);
    for _ in 0..n {
        if toks.is_empty() {
            break;
        }
        let i = r.upto(toks.len());
        match r.below(12) {
            0 => {
                toks.remove(i);
            }
            1 => {
                let t = toks[i].clone();
                toks.insert(i, t);
            }
            2 => {
                let j = r.upto(toks.len());
                toks.swap(i, j);
            }
            3 => {
                // numeral inflation to and beyond the limits of the integer types
                if let Some(k) = toks.iter().position(|t| t.chars().all(|c| c.is_ascii_digit()) && !t.is_empty()) {
                    toks[k] = ["9223372036854775807", "9223372036854775808", "18446744073709551615", "18446744073709551616", "99999999999999999999999999", "4294967296", "0000", "-9223372036854775808", "-9223372036854775809"][r.upto(9)].to_string();
                } else {
                    toks.insert(i, "9223372036854775808".into());
                }
            }
            4 => toks.insert(i, ["+", "-", "*", "/", "\\", "..", "<", "<-", "->", "<->", "=", "!=", ":-", "not", "and", "or", "forall", "exists"][r.upto(18)].to_string()),
            5 => toks.insert(i, ["(", ")", "((((", "))))", "{", "}", "[", "]", ".", ",", ";", ":", "$", "#", "%", "\n", "\"", "'"][r.upto(18)].to_string()),
            6 => {
                // deep nesting
                // (anthem's running time grows steeply with the nesting depth of some operators:
                // 400 unary minus signs take about 30 s of CPU in the release build, minutes in
                // the unoptimised one)
                let open = ["(", "not ", "-", "-(", "not not ", "forall X "][r.upto(6)];
                let mut d = if r.chance(1, 12) { 400 } else { [10, 60, 150][r.upto(3)] };
                if open.starts_with('-') {
                    // nested unary minus signs are the expensive ones (each level nests a
                    // quantified subformula in the translation): kept shallow, so that a slow but
                    // terminating run is never mistaken for a hang
                    d = d.min(60);
                }
                toks.insert(i, open.repeat(d));
                if open.ends_with('(') && r.chance(1, 2) {
                    let j = (i + 2).min(toks.len());
                    toks.insert(j, ")".repeat(d));
                }
            }
            7 if r.chance(1, 3) => {
                // identifiers with a huge numeric suffix (fresh-name arithmetic on V<k>, X<k>, N<k>)
                toks[i] = ["V18446744073709551615", "X18446744073709551615", "N9223372036854775807", "Z18446744073709551616", "I18446744073709551615", "V0", "V00", "X01"][r.upto(8)].to_string();
            }
            7 => toks[i] = ["#true", "#false", "#inf", "#sup", "#infimum", "X$", "X$i", "x$g", "N$s", "_", "_X", "_a", "a__b", "$i", "input", "output", "assumption", "spec", "lemma", "definition", "inductive-lemma", "universal", "forward"][r.upto(23)].to_string(),
            8 => {
                // huge arity
                toks.insert(i, format!("p/{}", ["0", "00", "18446744073709551615", "18446744073709551616", "99999999999999999999"][r.upto(5)]));
            }
            9 => {
                // role swap in specifications / user guides
                if let Some(k) = toks.iter().position(|t| ["assumption", "spec", "lemma", "definition", "inductive-lemma"].contains(&t.as_str())) {
                    toks[k] = ["assumption", "spec", "lemma", "definition", "inductive-lemma"][r.upto(5)].to_string();
                }
            }
            10 => toks.truncate(i),
            _ => toks.insert(i, ["\u{e9}", "\u{0}", "\u{7f}", "\t", "\r\n", "\u{2028}", "🙂"][r.upto(7)].to_string()),
        }
    }
    toks.concat()
}

fn gen_input(r: &mut Rng, corpus: &[(Kind, String)]) -> (Kind, String) {
    match r.below(10) {
        0 | 1 | 2 => {
            let (k, s) = &corpus[r.upto(corpus.len())];
            (k.clone(), mutate(r, s))
        }
        3 => {
            let mut o = ProgOpts::default();
            o.extreme_numerals = true;
            o.safe = r.chance(1, 2);
            let p = gen_program(r, &o);
            (Kind::Program, if r.chance(2, 3) { mutate(r, &p) } else { p })
        }
        4 => {
            let p = (0..(1 + r.upto(3))).map(|_| gen_flat_rule(r)).collect::<Vec<_>>().join("\n");
            (Kind::Program, if r.chance(1, 2) { mutate(r, &p) } else { p })
        }
        5 if r.chance(1, 2) => {
            // the simplifier's redex templates (shapes on which rewrites fire)
            let n = 1 + r.upto(2);
            let t = (0..n).map(|_| format!("{}.", crate::kit::redex::gen_redex(r).0)).collect::<Vec<_>>().join("\n");
            (Kind::Theory, t)
        }
        5 | 6 => {
            let n = 1 + r.upto(2);
            let t = (0..n).map(|_| format!("{}.", if r.chance(1, 2) { gen_flat_formula(r, 3) } else { gen_formula(r, &FolOpts::default(), 3) })).collect::<Vec<_>>().join("\n");
            (Kind::Theory, if r.chance(1, 2) { mutate(r, &t) } else { t })
        }
        7 => {
            let roles = ["assumption", "spec", "lemma", "definition", "inductive-lemma"];
            let n = 1 + r.upto(3);
            let t = (0..n)
                .map(|i| format!("{}{}[n{i}]: {}.", roles[r.upto(5)], ["", "(forward)", "(backward)"][r.upto(3)], gen_flat_formula(r, 2)))
                .collect::<Vec<_>>()
                .join("\n");
            (Kind::Specification, if r.chance(1, 2) { mutate(r, &t) } else { t })
        }
        8 => {
            let t = ["", " ", "\n\n", "% only a comment", "% c\n% d\n", ".", "..", "\u{feff}", "p", "p(", "p(1)", "forall"][r.upto(12)].to_string();
            ([Kind::Program, Kind::Theory, Kind::Specification, Kind::UserGuide][r.upto(4)].clone(), t)
        }
        _ => {
            let (t, _) = gen_external(r, &ExtOpts { hostile_identifiers: true, ..Default::default() });
            (Kind::UserGuide, if r.chance(1, 2) { mutate(r, &t.ug) } else { t.ug })
        }
    }
}

/// in-process pre-filter: the same library calls the commands make; returns panic locations
fn prefilter(kind: &Kind, text: &str) -> Vec<(String, String)> {
    use anthem::analyzing::{regularity::Regularity, tightness::Tightness};
    use anthem::translating::classical_reduction::{completion::Completion, gamma::Gamma};
    use anthem::translating::formula_representation::{mu::Mu, natural::Natural, tau_star::TauStar};
    let mut found: Vec<(String, String)> = Vec::new();
    let mut note = |cmd: &str, found: &mut Vec<(String, String)>| {
        found.push((cmd.to_string(), last_panic_location().unwrap_or("?".into())));
    };
    match kind {
        Kind::Program => match guarded(|| text.parse::<asp::Program>()) {
            Err(_) => note("parse-program", &mut found),
            Ok(Err(_)) => {}
            Ok(Ok(p)) => {
                if guarded(|| p.to_string()).is_err() {
                    note("parse-program", &mut found);
                }
                if guarded(|| p.clone().tau_star().to_string()).is_err() {
                    note("translate-tau-star", &mut found);
                }
                if guarded(|| p.clone().mu().to_string()).is_err() {
                    note("translate-mu", &mut found);
                }
                if guarded(|| p.clone().natural().map(|t| t.to_string())).is_err() {
                    note("translate-natural", &mut found);
                }
                if guarded(|| p.is_tight()).is_err() {
                    note("analyze-tightness", &mut found);
                }
                if guarded(|| p.is_regular()).is_err() {
                    note("analyze-regularity", &mut found);
                }
            }
        },
        Kind::Theory => match guarded(|| text.parse::<fol::Theory>()) {
            Err(_) => note("parse-theory", &mut found),
            Ok(Err(_)) => {}
            Ok(Ok(t)) => {
                if guarded(|| t.to_string()).is_err() {
                    note("parse-theory", &mut found);
                }
                if guarded(|| t.clone().gamma().to_string()).is_err() {
                    note("translate-gamma", &mut found);
                }
                if guarded(|| t.clone().completion(indexmap::IndexSet::new()).map(|t| t.to_string())).is_err() {
                    note("translate-completion", &mut found);
                }
                for p in crate::kit::simp::PORTFOLIOS {
                    for s in crate::kit::simp::STRATEGIES {
                        for f in &t.formulas {
                            if let Err(e) = crate::kit::simp::run_strategy(p, s, f.clone(), 300_000, 0) {
                                if e != "AVM_STEP_LIMIT" {
                                    found.push((format!("simplify-{}-{}", p.cli_name(), s.cli_name()), last_panic_location().unwrap_or("?".into())));
                                }
                            }
                        }
                    }
                }
            }
        },
        Kind::Specification => {
            if guarded(|| text.parse::<fol::Specification>().map(|s| s.to_string())).is_err() {
                note("parse-specification", &mut found);
            }
        }
        Kind::UserGuide => {
            if guarded(|| text.parse::<fol::UserGuide>().map(|s| s.to_string())).is_err() {
                note("parse-user-guide", &mut found);
            }
        }
    }
    found
}

fn ext_of(k: &Kind) -> &'static str {
    match k {
        Kind::Program => "lp",
        Kind::Theory | Kind::Specification => "spec",
        Kind::UserGuide => "ug",
    }
}

fn report(st: &mut Stats, profile: &str, cmd: &str, class: &Class, input_files: &[(String, String)]) {
    let files = J::Arr(input_files.iter().map(|(n, c)| J::obj().set("file", J::s(n)).set("content", J::s(c))).collect());
    match class {
        Class::Ok => st.inc(&format!("outcome_ok_{profile}")),
        Class::ReportedError => st.inc(&format!("outcome_reported_error_{profile}")),
        Class::Inconclusive(why) => {
            st.inc("outcome_inconclusive");
            let _ = why;
        }
        Class::Panic(loc) => {
            st.violation(format!("panic:{loc}"), format!("[{profile}] `anthem {cmd}` panicked at {loc}"), J::obj().set("command", J::s(cmd)).set("profile", J::s(profile)).set("inputs", files));
        }
        Class::Abort(what) => {
            st.violation(format!("abort:{what}"), format!("[{profile}] `anthem {cmd}` died: {what}"), J::obj().set("command", J::s(cmd)).set("profile", J::s(profile)).set("inputs", files));
        }
        Class::Hang => {
            st.violation("hang", format!("[{profile}] `anthem {cmd}` exceeded the CPU-time limit"), J::obj().set("command", J::s(cmd)).set("profile", J::s(profile)).set("inputs", files));
        }
    }
}

fn kind_name(k: &Kind) -> &'static str {
    match k {
        Kind::Program => "Program",
        Kind::Theory => "Theory",
        Kind::Specification => "Specification",
        Kind::UserGuide => "UserGuide",
    }
}

fn kind_of(s: &str) -> Kind {
    match s {
        "Program" => Kind::Program,
        "Theory" => Kind::Theory,
        "Specification" => Kind::Specification,
        _ => Kind::UserGuide,
    }
}

/// Child-process entry (`avm C16-prefilter <batch.json> <from>`): runs the in-process pre-filter
/// over the inputs of a batch, announcing each input before it starts, so that the parent can
/// attribute a hang or an abort (stack overflow) of the library code to the input that caused it.
pub fn prefilter_main(path: &str, from: usize) -> i32 {
    use std::io::Write;
    let Ok(text) = std::fs::read_to_string(path) else { return 2 };
    let Ok(j) = J::parse(&text) else { return 2 };
    let out = std::io::stdout();
    for (i, item) in j.arr("inputs").iter().enumerate() {
        if i < from {
            continue;
        }
        let kind = kind_of(item.str("kind").unwrap_or(""));
        let input = item.str("text").unwrap_or("");
        {
            let mut o = out.lock();
            let _ = writeln!(o, "START {i}");
            let _ = o.flush();
        }
        let found = prefilter(&kind, input);
        let mut o = out.lock();
        for (cmd, loc) in found {
            let _ = writeln!(o, "CAND {i} {cmd} {loc}");
        }
        let _ = writeln!(o, "DONE {i}");
        let _ = o.flush();
    }
    0
}

const BATCH: usize = 60;

/// one batch of inputs: pre-filter in a child process under a CPU-time limit, then subprocess
/// confirmation of every candidate and of a random sample of the others
fn batch_case(cfg: &Config, tmp: &Path, corpus: &[(Kind, String)], cmds: &[Cmd], idx: u64, r: &mut Rng, st: &mut Stats) {
    let inputs: Vec<(Kind, String)> = (0..BATCH)
        .map(|_| {
            let (k, t) = gen_input(r, corpus);
            (k, t.chars().take(4096).collect::<String>())
        })
        .collect();
    st.add("inputs", inputs.len() as u64);
    if idx == 0 {
        for (k, t) in inputs.iter().take(3) {
            st.sample(J::obj().set("kind", J::s(format!("{k:?}"))).set("input", J::s(t)));
        }
    }
    let batch_file = tmp.join(format!("batch_{idx}.json"));
    let j = J::obj().set("inputs", J::Arr(inputs.iter().map(|(k, t)| J::obj().set("kind", J::s(kind_name(k))).set("text", J::s(t))).collect()));
    std::fs::write(&batch_file, j.compact()).unwrap();
    let exe = std::env::current_exe().unwrap();
    let mut candidates: Vec<(usize, String, String)> = Vec::new();
    let mut suspects: Vec<usize> = Vec::new();
    let mut from = 0usize;
    let mut rounds = 0;
    while from < inputs.len() && rounds < 8 {
        rounds += 1;
        let script = "ulimit -t 60; ulimit -c 0; ulimit -v 8388608; exec \"$0\" \"$@\"";
        let out = Command::new("sh")
            .arg("-c")
            .arg(script)
            .arg(&exe)
            .args(["C16-prefilter", batch_file.to_str().unwrap(), &from.to_string()])
            .stdin(Stdio::null())
            .stdout(Stdio::piped())
            .stderr(Stdio::null())
            .output();
        let Ok(out) = out else {
            st.inc("prefilter_child_spawn_failures");
            break;
        };
        let text = String::from_utf8_lossy(&out.stdout).to_string();
        let mut last_started: Option<usize> = None;
        let mut done: std::collections::BTreeSet<usize> = std::collections::BTreeSet::new();
        for l in text.lines() {
            let f: Vec<&str> = l.splitn(4, ' ').collect();
            match f.as_slice() {
                ["START", i] => last_started = i.parse().ok(),
                ["DONE", i] => {
                    if let Ok(i) = i.parse() {
                        done.insert(i);
                    }
                }
                ["CAND", i, cmd, loc] => {
                    if let Ok(i) = i.parse() {
                        candidates.push((i, cmd.to_string(), loc.to_string()));
                    }
                }
                _ => {}
            }
        }
        st.add("in_process_checks", done.len() as u64);
        if out.status.success() {
            break;
        }
        // the child died (CPU limit, stack overflow, abort): the input it was working on is a suspect
        st.inc("prefilter_child_died");
        match last_started {
            Some(i) if !done.contains(&i) => {
                suspects.push(i);
                from = i + 1;
            }
            _ => break,
        }
    }
    let _ = std::fs::remove_file(&batch_file);
    let mut run_on = |i: usize, cmd: &Cmd, st: &mut Stats, r: &mut Rng| {
        let (kind, text) = &inputs[i];
        let f = tmp.join(format!("in_{idx}_{i}.{}", ext_of(kind)));
        let mut bytes: Vec<u8> = text.clone().into_bytes();
        if r.chance(1, 25) {
            let pos = if bytes.is_empty() { 0 } else { r.upto(bytes.len()) };
            for (k, b) in [0xffu8, 0xc3, 0x28, 0x80].iter().enumerate() {
                bytes.insert((pos + k).min(bytes.len()), *b);
            }
            st.inc("inputs_with_invalid_utf8");
        }
        std::fs::write(&f, &bytes).unwrap();
        let via_stdin = r.chance(1, 5);
        let mut args = cmd.args.clone();
        if !via_stdin {
            args.push(f.to_str().unwrap().to_string());
        } else {
            st.inc("subprocess_runs_via_stdin");
        }
        for (profile, bin) in [("release", cfg.anthem_release()), ("dev", cfg.anthem_dev())] {
            let class = run_limited_stdin(&bin, &args, None, 20, if via_stdin { Some(&f) } else { None });
            st.inc("subprocess_runs");
            st.inc(&format!("subprocess_runs_{}", cmd.name.split('-').next().unwrap()));
            report(st, profile, &cmd.args.join(" "), &class, &[(format!("input.{}", ext_of(kind)), text.clone())]);
        }
        let _ = std::fs::remove_file(&f);
    };
    let mut ran: std::collections::BTreeSet<(usize, String)> = std::collections::BTreeSet::new();
    for (i, c, _) in &candidates {
        st.inc("in_process_panics");
        if let Some(cmd) = cmds.iter().find(|x| &x.name == c) {
            if ran.insert((*i, cmd.name.clone())) {
                run_on(*i, cmd, st, r);
            }
        }
    }
    for i in suspects {
        // every command that fits the kind of the suspect input
        st.inc("suspect_inputs_after_child_death");
        let kind = inputs[i].0.clone();
        for cmd in cmds.iter().filter(|c| c.kind == kind) {
            if ran.insert((i, cmd.name.clone())) {
                run_on(i, cmd, st, r);
            }
        }
    }
    for i in 0..inputs.len() {
        if r.chance(1, 10) {
            let kind = inputs[i].0.clone();
            let fitting: Vec<&Cmd> = cmds.iter().filter(|c| c.kind == kind).collect();
            if !fitting.is_empty() {
                let cmd = fitting[r.upto(fitting.len())];
                if ran.insert((i, cmd.name.clone())) {
                    run_on(i, cmd, st, r);
                }
            }
        }
        st.eval(Some(&inputs[i].1));
    }
}

/// verify --no-proof-search on (possibly mutated) task files
fn verify_case(cfg: &Config, tmp: &Path, corpus: &[(Kind, String)], idx: u64, r: &mut Rng, st: &mut Stats) {
    let eo = ExtOpts { hostile_identifiers: r.chance(1, 2), underscore_identifiers: r.chance(1, 4), two_arities: r.chance(1, 4), preamble_names: r.chance(1, 5), ..Default::default() };
    let (mut t, _) = gen_external(r, &eo);
    let spec_corpus: Vec<&String> = corpus.iter().filter(|(k, _)| *k == Kind::Specification).map(|(_, s)| s).collect();
    let strong = r.chance(1, 3);
    let with_spec = !strong && r.chance(1, 3);
    let with_po = !strong && r.chance(1, 2);
    let mut po = String::new();
    if with_po {
        po = match r.below(3) {
            0 => spec_corpus[r.upto(spec_corpus.len())].clone(),
            1 => "lemma[l]: forall X (out(X) -> out(X)).\ninductive-lemma[i]: N$i >= 0 -> N$i >= 0.\ndefinition[d]: forall X (dd(X) <-> X = 1).".to_string(),
            _ => format!("{}: {}.", ["lemma", "inductive-lemma", "definition", "assumption", "spec"][r.upto(5)], gen_flat_formula(r, 2)),
        };
    }
    let mut spec = String::new();
    if with_spec {
        spec = match r.below(3) {
            0 => spec_corpus[r.upto(spec_corpus.len())].clone(),
            1 => format!("{}: {}.", ["lemma", "inductive-lemma", "definition", "assumption", "spec"][r.upto(5)], gen_flat_formula(r, 2)),
            _ => "spec: forall X (out(X) -> X = X).\nassumption: forall X (in(X) -> X != 3).".to_string(),
        };
    }
    // mutate one of the files
    match r.below(6) {
        0 => t.right = mutate(r, &t.right),
        1 => t.ug = mutate(r, &t.ug),
        2 if with_po => po = mutate(r, &po),
        3 if with_spec => spec = mutate(r, &spec),
        4 => {
            if let Either::Left(l) = &t.left {
                t.left = Either::Left(mutate(r, l));
            }
        }
        _ => {}
    }
    if r.chance(1, 10) {
        // a side without any formula: a blank specification next to a user guide without
        // assumptions (external), a blank program next to one that has only comparison
        // constraints and hence no predicate (strong): problems without a single axiom
        if strong {
            t.left = Either::Left(["", "% nothing\n"][r.upto(2)].to_string());
            t.right = [":- X = 1..3, X > 5.", ":- 1 > 2.\n:- X = 1..2, X = 3.", ":- #false."][r.upto(3)].to_string();
        } else if with_spec {
            spec = ["", "% an empty specification\n", "\n"][r.upto(3)].to_string();
            t.ug = t.ug.lines().filter(|l| !l.trim_start().starts_with("assumption")).collect::<Vec<_>>().join("\n");
        }
        st.inc("verify_inputs_with_a_side_without_formulas");
    }
    if r.chance(1, 12) {
        // declared predicates of enormous arity that no program mentions (accepted: nothing is
        // ever instantiated for them)
        let huge = ["18446744073709551615", "9223372036854775807", "4294967296", "65536"][r.upto(4)];
        t.ug.push_str(&format!("\n{}: zz/{huge}.", ["output", "input", "output"][r.upto(3)]));
        st.inc("verify_inputs_with_a_declared_predicate_of_enormous_arity");
    }
    if r.chance(1, 12) {
        // accepted inputs that leave nothing to prove: empty and comment-only programs
        let blank = |r: &mut Rng| ["", "% nothing here\n", "\n\n", "%* block comment *%\n"][r.upto(4)].to_string();
        t.right = blank(r);
        if r.chance(2, 3) {
            t.left = Either::Left(blank(r));
        }
    }
    let d = tmp.join(format!("v{idx}"));
    std::fs::create_dir_all(d.join("out")).unwrap();
    let mut files: Vec<(String, String)> = Vec::new();
    if let Either::Left(l) = &t.left {
        files.push(("a.1.lp".into(), l.clone()));
    }
    files.push(("a.2.lp".into(), t.right.clone()));
    if !strong {
        files.push(("a.ug".into(), t.ug.clone()));
        if with_spec {
            files.push(("a.spec".into(), spec.clone()));
        }
        if with_po {
            files.push(("a.po".into(), po.clone()));
        }
    }
    for (n, c) in &files {
        std::fs::write(d.join(n), c).unwrap();
    }
    let flags = Flags::random(r);
    let mut args: Vec<String> = vec!["verify".into(), "--equivalence".into(), if strong { "strong" } else { "external" }.into(), "--no-proof-search".into(), "--save-problems".into(), "out".into()];
    if PROVER_DIR.get().is_some() && r.chance(1, 5) {
        // the later stage "proof search" as well (against a stand-in prover that answers at once)
        args = vec!["verify".into(), "--equivalence".into(), if strong { "strong" } else { "external" }.into(), "--no-timing".into(), "-t".into(), "1".into(), "-n".into(), ["1", "2", "3", "8", "0"][r.upto(5)].to_string()];
        st.inc("verify_inputs_with_proof_search");
    }
    if r.chance(1, 2) {
        args.push("--bypass-tightness".into());
    }
    if strong && r.chance(1, 2) {
        args.extend(["--formula-representation".to_string(), "mu".to_string()]);
    }
    args.extend(flags.cli_args());
    for (n, _) in &files {
        args.push(n.clone());
    }
    st.inc("verify_inputs");
    let profiles: Vec<(&str, PathBuf)> = if r.chance(1, 2) { vec![("release", cfg.anthem_release())] } else { vec![("dev", cfg.anthem_dev())] };
    for (profile, bin) in profiles {
        let class = run_limited(&bin, &args, Some(&d), 20);
        st.inc("subprocess_runs");
        st.inc("subprocess_runs_verify");
        report(st, profile, &args.join(" "), &class, &files);
    }
    st.eval(Some(&format!("{files:?}")));
    let _ = std::fs::remove_dir_all(&d);
}

fn replay_known(cfg: &Config, tmp: &Path, k: &KnownFinding) -> bool {
    let w = &k.witness;
    let d = tmp.join("known");
    let _ = std::fs::remove_dir_all(&d);
    std::fs::create_dir_all(d.join("out")).unwrap();
    let mut args: Vec<String> = w.arr("args").iter().filter_map(|a| a.as_str().map(|s| s.to_string())).collect();
    for f in w.arr("files") {
        if let (Some(n), Some(c)) = (f.str("file"), f.str("content")) {
            std::fs::write(d.join(n), c).unwrap();
            args.push(n.to_string());
        }
    }
    let mut st = Stats::default();
    for (profile, bin) in [("release", cfg.anthem_release()), ("dev", cfg.anthem_dev())] {
        let class = run_limited(&bin, &args, Some(&d), 20);
        report(&mut st, profile, &args.join(" "), &class, &[]);
    }
    let _ = std::fs::remove_dir_all(&d);
    st.violations.iter().any(|v| v.class == k.class)
}

pub fn run(cfg: &Config) -> i32 {
    let started = Instant::now();
    require_binaries(cfg);
    let tmp = scratch_dir(cfg, "c16");
    let corpus = corpus();
    if corpus.len() < 10 {
        eprintln!("[avm] corpus under /repo/res/examples not found");
        return 2;
    }
    let cmds = single_file_commands();
    let fakebin = tmp.join("bin");
    let _ = std::fs::create_dir_all(&fakebin);
    if std::fs::copy(cfg.fake_vampire(), fakebin.join("vampire")).is_ok() {
        let _ = PROVER_DIR.set(fakebin.clone());
    }
    let budget = Duration::from_secs_f64(cfg.pick(45.0, 480.0) * cfg.scale);
    let mut stats = parallel(cfg, "single", cfg.scaled(cfg.pick(1_000, 400_000)), budget, |idx, r, st| batch_case(cfg, &tmp, &corpus, &cmds, idx, r, st));
    let s2 = parallel(cfg, "verify", cfg.scaled(cfg.pick(1500, 1_000_000)), budget / 2, |idx, r, st| verify_case(cfg, &tmp, &corpus, idx, r, st));
    stats.merge(s2);
    stats.add("runs_over_the_cpu_limit_that_terminate_within_the_extended_limit", SLOW_BUT_TERMINATING.load(std::sync::atomic::Ordering::Relaxed));
    let mut known_replayed = Vec::new();
    for k in load_known(cfg).into_iter().filter(|k| k.property == "C16" && k.status == "open") {
        let still = replay_known(cfg, &tmp, &k);
        known_replayed.push((k, still));
    }
    let _ = std::fs::remove_dir_all(&tmp);
    finish(
        cfg,
        started,
        Outcome {
            stats,
            level: "exploration",
            rule: "byte strings up to 4 KB: files of res/examples and generated programs/theories/specifications/user guides mutated by token deletion/duplication/swap, numeral inflation to and beyond the isize/usize limits, operator soup, unbalanced and deep nesting, huge arities, role swaps, truncation, control and non-ASCII characters, empty and comment-only files; every input goes through a pre-filter (the same library calls the commands make, with catch_unwind, run in a child process under a CPU-time limit so that a hang or stack overflow of the library is attributed to its input); every candidate and a random sample of non-candidates is run through the real binary in a subprocess in release and dev profile, plus `verify --no-proof-search` on task directories with one mutated file; classification by exit status, signal, stderr and CPU-time limit (20 s; a run over the limit is repeated with 200 s and only a run over that is a hang; at most three such re-runs per check, further limit-exceeders are inconclusive), wall-clock watchdog = inconclusive; a case is a distinct input text".into(),
            assumptions: vec!["a non-zero exit with a message on stderr and no `panicked at` is a reported error".into()],
            floor: cfg.pick(2_000, 20_000),
            floor_counter: "subprocess_runs".into(),
            known_replayed,
            extra: J::obj(),
        },
    )
}
