//! C17: substitution of a term for a variable never captures variables.
use crate::kit::eval::{Consts, Tv, World, eval_fol, eval_term};
use crate::kit::generate::{FOL_VARS, FolOpts, default_pool, gen_assignment, gen_formula, gen_gterm, gen_ht, gen_int_term, gen_sym_term, show_assign};
use crate::kit::json::J;
use crate::kit::rng::Rng;
use crate::monitors::common::*;
use crate::run::{Config, KnownFinding, Outcome, Stats, finish, guarded, load_known, parallel};
use anthem::syntax_tree::fol::sigma_0 as fol;
use std::collections::BTreeSet;
use std::time::{Duration, Instant};

/// checks one (formula, variable, term) triple on `n` interpretations; returns the violation class
pub fn check_triple(f: &fol::Formula, var: &fol::Variable, term: &fol::GeneralTerm, r: &mut Rng, n: usize, st: &mut Stats) -> Option<String> {
    let g = match guarded(|| f.clone().substitute(var.clone(), term.clone())) {
        Ok(g) => g,
        Err(p) => {
            st.inc("substitute_panics");
            // sort-incompatible terms are documented to panic; the generator never produces them
            let _ = p;
            return None;
        }
    };
    st.inc("triples");
    let mut found: Option<String> = None;
    // free-variable law
    let fv_f = f.free_variables();
    let mut expect: BTreeSet<fol::Variable> = fv_f.iter().cloned().collect();
    if fv_f.contains(var) {
        expect.remove(var);
        expect.extend(term.variables());
        st.inc("triples_with_free_occurrence");
    }
    let got: BTreeSet<fol::Variable> = g.free_variables().into_iter().collect();
    let detail = |extra: J| {
        extra
            .set("formula", J::s(f.to_string()))
            .set("variable", J::s(var.to_string()))
            .set("term", J::s(term.to_string()))
            .set("result", J::s(g.to_string()))
    };
    if expect != got {
        // root cause classification: did the renaming pick the substituted variable itself?
        let class = if got.iter().any(|v| !expect.contains(v)) && term.variables().iter().any(|tv| got.contains(tv) || true) && renamed_to_var(f, &g, var) {
            "fv-law:fresh-name-equals-substituted-variable"
        } else {
            "fv-law"
        };
        st.violation(class, format!("free variables of {f} [{var} := {term}] = {g} are wrong"), detail(J::obj().set("expected_free", J::s(format!("{expect:?}"))).set("got_free", J::s(format!("{got:?}")))));
        found = Some(class.to_string());
    }
    let pool = default_pool();
    let consts = Consts::new();
    let preds = formula_preds(f);
    let vars: Vec<(String, String)> = FOL_VARS.iter().map(|(a, b)| (a.to_string(), b.to_string())).collect();
    for k in 0..n {
        let (h, t) = gen_ht(r, &preds, &pool, if k % 3 == 2 { 3 } else { 0 });
        let mut sigma = gen_assignment(r, &vars, &pool);
        // make sure every variable of the case has a value
        for v in f.variables().into_iter().chain(term.variables()).chain(std::iter::once(var.clone())).chain(g.variables()) {
            let s = sort_of(v.sort);
            sigma.entry((v.name.clone(), s)).or_insert_with(|| crate::kit::generate::value_of_sort(r, &pool, s));
        }
        let Some(tv) = eval_term(term, &consts, &sigma) else {
            st.inc("unknown_term_value");
            continue;
        };
        let mut sigma2 = sigma.clone();
        sigma2.insert((var.name.clone(), sort_of(var.sort)), tv);
        for (w, hh) in [(World::C, &t), (World::H, &h)] {
            let a = eval_fol(&g, hh, &t, &consts, &sigma, w).0;
            let b = eval_fol(f, hh, &t, &consts, &sigma2, w).0;
            match (a, b) {
                (Tv::U, _) | (_, Tv::U) => st.inc("unknown"),
                (a, b) if a == b => {
                    st.inc("definite_comparisons");
                    st.eval(Some(&format!("{f}|{var}|{term}|{k}|{w:?}")));
                }
                (a, b) => {
                    st.inc("definite_comparisons");
                    st.eval(None);
                    let class = if renamed_to_var(f, &g, var) { "semantic:fresh-name-equals-substituted-variable" } else { "semantic" };
                    st.violation(
                        class,
                        format!("{f} [{var} := {term}] = {g}: value {a:?}, expected {b:?}"),
                        detail(J::obj().set("H", interp_json(hh)).set("T", interp_json(&t)).set("assignment", J::s(show_assign(&sigma))).set("world", J::s(format!("{w:?}")))),
                    );
                    found = Some(class.to_string());
                }
            }
        }
    }
    found
}

/// root-cause recogniser for the known defect: some binder of the result is the substituted
/// variable itself although it was not a binder of the input at that position (renaming chose it)
fn renamed_to_var(f: &fol::Formula, g: &fol::Formula, var: &fol::Variable) -> bool {
    fn binders(f: &fol::Formula, out: &mut Vec<fol::Variable>) {
        match f {
            fol::Formula::AtomicFormula(_) => {}
            fol::Formula::UnaryFormula { formula, .. } => binders(formula, out),
            fol::Formula::BinaryFormula { lhs, rhs, .. } => {
                binders(lhs, out);
                binders(rhs, out)
            }
            fol::Formula::QuantifiedFormula { quantification, formula } => {
                out.extend(quantification.variables.iter().cloned());
                binders(formula, out)
            }
        }
    }
    let (mut bf, mut bg) = (Vec::new(), Vec::new());
    binders(f, &mut bf);
    binders(g, &mut bg);
    bf.len() == bg.len() && bf.iter().zip(bg.iter()).any(|(a, b)| a != b && b == var)
}

/// a quantifier block whose binders are B, B1 (, B2) with the substituted variable free in the
/// body and the term mentioning B: renaming B must avoid its sibling binders as well
fn gen_block_triple(r: &mut Rng) -> Option<(fol::Formula, fol::Variable, fol::GeneralTerm)> {
    let base = ["X", "Y", "N"][r.upto(3)];
    let sort = ["", "$i"][r.upto(2)];
    let mut binders: Vec<String> = vec![format!("{base}{sort}"), format!("{base}1{sort}")];
    if r.chance(1, 3) {
        binders.push(format!("{base}2{sort}"));
    }
    if r.chance(1, 4) {
        binders.push(format!("{base}1{}", if sort.is_empty() { "$i" } else { "" }));
    }
    r.shuffle(&mut binders);
    let wsort = if r.chance(2, 3) { sort } else { ["", "$i"][r.upto(2)] };
    let w = format!("W{wsort}");
    let mut o = FolOpts::default();
    o.vars = binders.iter().chain(std::iter::once(&w)).map(|v| match v.find('$') { Some(i) => (v[..i].to_string(), v[i..].to_string()), None => (v.clone(), String::new()) }).collect();
    o.max_chain = 2;
    let body = gen_formula(r, &o, 2);
    let q = ["exists", "forall"][r.upto(2)];
    // make sure every binder and the substituted variable occur
    let args = binders.iter().map(|b| b.as_str()).chain(std::iter::once(w.as_str())).collect::<Vec<_>>().join(", ");
    let text = match binders.len() {
        2 => format!("{q} {} (w3({args}) and ({body}))", binders.join(" ")),
        3 => format!("{q} {} (w4({args}) and ({body}))", binders.join(" ")),
        _ => format!("{q} {} (w5({args}) or ({body}))", binders.join(" ")),
    };
    let text = if r.chance(1, 3) { format!("not ({text}) or p({w})") } else { text };
    let f = parse_formula(&text).ok()?;
    let var: fol::Variable = w.parse().ok()?;
    let b0 = format!("{base}{sort}");
    let tt = if wsort == "$i" {
        if sort == "$i" { [format!("{b0}"), format!("{b0} + 1"), format!("{base}1$i * {b0}")][r.upto(3)].clone() } else { format!("{}", r.range(0, 3)) }
    } else if sort == "$i" {
        [format!("{b0}"), format!("{b0} + 1")][r.upto(2)].clone()
    } else {
        b0.clone()
    };
    let term: fol::GeneralTerm = tt.parse().ok()?;
    Some((f, var, term))
}

/// two integer binders B, B1 that both occur in the term while B2..Bk are free in the body: the
/// first fresh candidates of B (B1, B2, ...) are taken, so that the fresh names of the two
/// binders are drawn from overlapping candidate sequences (B -> B11, B1 -> B11)
fn gen_ladder_triple(r: &mut Rng) -> Option<(fol::Formula, fol::Variable, fol::GeneralTerm)> {
    let base = ["X", "N", "I"][r.upto(3)];
    let top = 8 + r.upto(5); // B2..B<top>, top in 8..12
    let ladder: Vec<String> = (2..=top).map(|i| format!("{base}{i}$i")).collect();
    let q = ["exists", "forall"][r.upto(2)];
    let (b0, b1) = (format!("{base}$i"), format!("{base}1$i"));
    let binders = if r.chance(1, 2) { format!("{b0} {b1}") } else { format!("{b1} {b0}") };
    let rel = ["<", "!=", "=", ">="][r.upto(4)];
    let text = format!("{q} {binders} (w3({b0}, {b1}, W$i) {} {} {rel} {b0} - {b1})", ["and", "or", "->"][r.upto(3)], ladder.join(" + "));
    let f = parse_formula(&text).ok()?;
    let var: fol::Variable = "W$i".parse().ok()?;
    let tt = [format!("{b0} + {b1}"), format!("{b1} * {b0}"), format!("{b0} - {b1} + 1")][r.upto(3)].clone();
    let term: fol::GeneralTerm = tt.parse().ok()?;
    Some((f, var, term))
}

fn gen_triple(r: &mut Rng, depth: u32) -> Option<(fol::Formula, fol::Variable, fol::GeneralTerm)> {
    if r.chance(1, 3) {
        return gen_block_triple(r);
    }
    if r.chance(1, 10) {
        return gen_ladder_triple(r);
    }
    let mut o = FolOpts::default();
    o.depth = depth;
    // hostile binder pool: names that are candidates of Variable::sequence for each other
    if r.chance(1, 2) {
        o.vars = vec![("Y".into(), "".into()), ("Y1".into(), "".into()), ("Y2".into(), "".into()), ("X".into(), "".into()), ("Y".into(), "$i".into()), ("Y1".into(), "$i".into()), ("X".into(), "$i".into()), ("X".into(), "$s".into()), ("X1".into(), "".into())];
    }
    let text = gen_formula(r, &o, depth);
    let f = parse_formula(&text).ok()?;
    let (vn, vs) = o.vars[r.upto(o.vars.len())].clone();
    let var: fol::Variable = format!("{vn}{vs}").parse().ok()?;
    let tt = match var.sort {
        fol::Sort::General => gen_gterm(r, &o),
        fol::Sort::Integer => gen_int_term(r, &o, 2),
        fol::Sort::Symbol => gen_sym_term(r, &o),
    };
    let term: fol::GeneralTerm = tt.parse().ok()?;
    Some((f, var, term))
}

fn case(cfg: &Config, idx: u64, r: &mut Rng, st: &mut Stats) {
    let Some((f, var, term)) = gen_triple(r, cfg.pick(3, 4)) else {
        st.inc("generator_parse_errors");
        return;
    };
    if idx < 3 {
        st.sample(J::obj().set("formula", J::s(f.to_string())).set("variable", J::s(var.to_string())).set("term", J::s(term.to_string())).set("result", J::s(guarded(|| f.clone().substitute(var.clone(), term.clone())).map(|g| g.to_string()).unwrap_or("panic".into()))));
    }
    check_triple(&f, &var, &term, r, cfg.pick(4, 6), st);
}

fn replay_known(k: &KnownFinding, st: &mut Stats) -> bool {
    let (Some(f), Some(v), Some(t)) = (k.witness.str("formula"), k.witness.str("variable"), k.witness.str("term")) else { return false };
    let (Ok(f), Ok(v), Ok(t)) = (f.parse::<fol::Formula>(), v.parse::<fol::Variable>(), t.parse::<fol::GeneralTerm>()) else { return false };
    let mut tmp = Stats::default();
    let mut r = Rng::new(7);
    let res = check_triple(&f, &v, &t, &mut r, 12, &mut tmp);
    st.add("known_finding_replays", 1);
    res.as_deref() == Some(k.class.as_str()) || tmp.violations.iter().any(|x| x.class == k.class)
}

pub fn run(cfg: &Config) -> i32 {
    let started = Instant::now();
    let budget = Duration::from_secs_f64(cfg.pick(40.0, 360.0) * cfg.scale);
    let mut stats = parallel(cfg, "main", cfg.scaled(cfg.pick(70_000, 5_000_000)), budget, |idx, r, st| case(cfg, idx, r, st));
    let mut known_replayed = Vec::new();
    for k in load_known(cfg).into_iter().filter(|k| k.property == "C17" && k.status == "open") {
        let still = replay_known(&k, &mut stats);
        known_replayed.push((k, still));
    }
    finish(
        cfg,
        started,
        Outcome {
            stats,
            level: "exploration",
            rule: "random (formula, variable, sort-compatible term) triples with binders that reuse the substituted name, name variables of the term, indexed names Y1/Y2 already taken, same name at two sorts; each checked against the free-variable law and, on random interpretations/assignments in classical and HT mode, against eval(F[x:=t], s) = eval(F, s[x := value of t]); a case is one definite comparison, distinct by (formula, variable, term, interpretation index, mode)".into(),
            assumptions: vec!["sort-compatible terms only (Formula::substitute documents a panic otherwise)".into()],
            floor: cfg.pick(80_000, 400_000),
            floor_counter: "definite_comparisons".into(),
            known_replayed,
            extra: J::obj(),
        },
    )
}
