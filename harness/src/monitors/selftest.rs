//! Kit self-tests (DESIGN.md section 8.1): the oracles are checked against independent, simpler
//! computations before anything they say about anthem is believed. Run by bin/setup and by
//! `bin/check selftest quick`. Exit 0 = all passed, 2 = the kit is broken (no verdict on anthem).
use crate::kit::aspref::{AtomSet, DivConv, Ref, RefStats, fallback_values};
use crate::kit::eval::{Assign, Consts, Tv, World, eval_fol};
use crate::kit::generate::{FolOpts, default_pool, gen_assignment, gen_formula, gen_ht, small_pool};
use crate::kit::ir::{Conn, F, Rel, Sort, Term};
use crate::kit::rng::Rng;
use crate::kit::tptp::read_problem;
use crate::kit::value::{Interp, Value};
use crate::monitors::common::*;
use crate::run::Config;
use anthem::syntax_tree::fol::sigma_0 as fol;
use std::collections::BTreeMap;

/// brute-force classical evaluation for formulas whose quantifiers are all of the bounded forms
/// `exists V$i (lo <= V$i <= hi and B)` / `forall V$i (lo <= V$i <= hi -> B)`; None if a
/// quantifier has another shape
fn brute(f: &F, env: &mut Vec<Option<Value>>, i: &Interp) -> Option<bool> {
    fn term(t: &Term, env: &[Option<Value>]) -> Option<Value> {
        match t {
            Term::Var(v) => env[*v].clone(),
            Term::Val(v) => Some(v.clone()),
            Term::Const(..) => None,
            Term::Neg(a) => match term(a, env)? {
                Value::Int(x) => Some(Value::Int(-x)),
                _ => None,
            },
            Term::Bin(op, a, b) => match (term(a, env)?, term(b, env)?) {
                (Value::Int(x), Value::Int(y)) => Some(Value::Int(match op {
                    crate::kit::ir::Op::Add => x + y,
                    crate::kit::ir::Op::Sub => x - y,
                    crate::kit::ir::Op::Mul => x * y,
                })),
                _ => None,
            },
        }
    }
    Some(match f {
        F::True => true,
        F::False => false,
        F::Atom(p, ts) => {
            let mut tp = Vec::new();
            for t in ts {
                tp.push(term(t, env)?);
            }
            i.holds(p, &tp)
        }
        F::Cmp(t0, gs) => {
            let mut l = term(t0, env)?;
            let mut ok = true;
            for (r, t) in gs {
                let v = term(t, env)?;
                ok &= r.holds(&l, &v);
                l = v;
            }
            ok
        }
        F::Not(a) => !brute(a, env, i)?,
        F::Bin(c, a, b) => {
            let (x, y) = (brute(a, env, i)?, brute(b, env, i)?);
            match c {
                Conn::And => x && y,
                Conn::Or => x || y,
                Conn::Imp => !x || y,
                Conn::Rimp => x || !y,
                Conn::Iff => x == y,
            }
        }
        F::Q(forall, vars, body) => {
            if vars.len() != 1 {
                return None;
            }
            let v = vars[0];
            // bounds
            let (guard, rest) = match (&**body, forall) {
                (F::Bin(Conn::And, g, r), false) => (g, r),
                (F::Bin(Conn::Imp, g, r), true) => (g, r),
                _ => return None,
            };
            let F::Cmp(Term::Val(Value::Int(lo)), gs) = &**guard else { return None };
            if gs.len() != 2 || gs[0].0 != Rel::Le || gs[1].0 != Rel::Le || gs[0].1 != Term::Var(v) {
                return None;
            }
            let Term::Val(Value::Int(hi)) = &gs[1].1 else { return None };
            let mut res = *forall;
            for k in *lo..=*hi {
                env[v] = Some(Value::Int(k));
                let b = brute(rest, env, i)?;
                if *forall {
                    res &= b;
                } else {
                    res |= b;
                }
            }
            env[v] = None;
            res
        }
    })
}

fn bounded_formula(r: &mut Rng, depth: u32) -> String {
    let vars = ["A$i", "B$i", "C$i"];
    let atom = |r: &mut Rng| -> String {
        let v = vars[r.upto(3)];
        match r.below(5) {
            0 => format!("p({v})"),
            1 => format!("q({v} + {})", r.range(-1, 1)),
            2 => format!("r({v}, {})", vars[r.upto(3)]),
            3 => format!("{v} * {} {} {}", r.range(1, 2), ["<", "=", ">=", "!="][r.upto(4)], vars[r.upto(3)]),
            _ => format!("{} <= {v}", r.range(-1, 2)),
        }
    };
    if depth == 0 || r.chance(1, 4) {
        return atom(r);
    }
    match r.below(7) {
        0 => format!("not ({})", bounded_formula(r, depth - 1)),
        1 => format!("({}) and ({})", bounded_formula(r, depth - 1), bounded_formula(r, depth - 1)),
        2 => format!("({}) or ({})", bounded_formula(r, depth - 1), bounded_formula(r, depth - 1)),
        3 => format!("({}) -> ({})", bounded_formula(r, depth - 1), bounded_formula(r, depth - 1)),
        4 => format!("({}) <-> ({})", bounded_formula(r, depth - 1), bounded_formula(r, depth - 1)),
        5 => {
            let v = vars[r.upto(3)];
            format!("exists {v} ({} <= {v} <= {} and ({}))", r.range(-2, 0), r.range(0, 3), bounded_formula(r, depth - 1))
        }
        _ => {
            let v = vars[r.upto(3)];
            format!("forall {v} ({} <= {v} <= {} -> ({}))", r.range(-2, 0), r.range(0, 3), bounded_formula(r, depth - 1))
        }
    }
}

fn fail(what: &str, detail: String) -> i32 {
    eprintln!("[avm selftest] FAILED: {what}\n{detail}");
    2
}

pub fn run(cfg: &Config) -> i32 {
    let mut r = Rng::new(cfg.seed ^ 0x5e1f);
    // 1. evaluator vs brute force on bounded formulas (both exact there)
    let preds: Vec<(String, usize)> = vec![("p".into(), 1), ("q".into(), 1), ("r".into(), 2)];
    let pool: Vec<Value> = (-3..=4).map(Value::Int).collect();
    let mut compared = 0u64;
    for _ in 0..4000 {
        let text = bounded_formula(&mut r, 3);
        let Ok(f) = parse_formula(&text) else { return fail("bounded formula does not parse", text) };
        let (irf, sorts, free) = crate::kit::ir::convert(&f);
        for _ in 0..3 {
            let (_, t) = gen_ht(&mut r, &preds, &pool, 0);
            let mut env: Vec<Option<Value>> = vec![None; sorts.len()];
            let mut assign = Assign::new();
            for (n, s, id) in &free {
                let v = Value::Int(r.range(-2, 3) as i128);
                env[*id] = Some(v.clone());
                assign.insert((n.clone(), *s), v);
            }
            let Some(expect) = brute(&irf, &mut env, &t) else { continue };
            let got = eval_fol(&f, &t, &t, &Consts::new(), &assign, World::C).0;
            compared += 1;
            if got != Tv::of(expect) {
                return fail("three-valued evaluator disagrees with brute force on a bounded formula", format!("{text}\nI = {}\nassignment = {:?}\nevaluator = {got:?}, brute force = {expect}", interp_json(&t).compact(), assign));
            }
        }
    }
    if compared < 5000 {
        return fail("too few evaluator/brute-force comparisons", format!("{compared}"));
    }
    // 2. metamorphic laws on arbitrary formulas: double negation and F and F classically,
    //    persistence (true at h implies true at t) in HT
    let mut laws = 0u64;
    let o = FolOpts::default();
    let dpool = default_pool();
    let fpreds: Vec<(String, usize)> = o.preds.clone();
    for _ in 0..3000 {
        let text = gen_formula(&mut r, &o, 3);
        let Ok(f) = parse_formula(&text) else { continue };
        let nn: fol::Formula = format!("not not ({text})").parse().unwrap();
        let ff: fol::Formula = format!("({text}) and ({text})").parse().unwrap();
        let (h, t) = gen_ht(&mut r, &fpreds, &dpool, 4);
        let sigma = gen_assignment(&mut r, &o.vars, &dpool);
        let c = Consts::new();
        let a = eval_fol(&f, &t, &t, &c, &sigma, World::C).0;
        for (g, law) in [(&nn, "not not F = F (classical)"), (&ff, "F and F = F")] {
            let b = eval_fol(g, &t, &t, &c, &sigma, World::C).0;
            if a != Tv::U && b != Tv::U {
                laws += 1;
                if a != b {
                    return fail(law, format!("{text}: {a:?} vs {b:?}"));
                }
            }
        }
        let at_h = eval_fol(&f, &h, &t, &c, &sigma, World::H).0;
        let at_t = eval_fol(&f, &t, &t, &c, &sigma, World::H).0;
        if at_h == Tv::T && at_t == Tv::F {
            return fail("HT persistence", format!("{text} is true at (H,T) but false at (T,T)\nH={}\nT={}", interp_json(&h).compact(), interp_json(&t).compact()));
        }
        if at_h != Tv::U && at_t != Tv::U {
            laws += 1;
        }
    }
    if laws < 3000 {
        return fail("too few metamorphic comparisons", format!("{laws}"));
    }
    // 3. ground reference: hand-computed stable models
    let cases: Vec<(&str, Vec<Vec<&str>>)> = vec![
        ("p(1..3). r(2). q(X) :- p(X), not r(X).", vec![vec!["p(1)", "p(2)", "p(3)", "r(2)", "q(1)", "q(3)"]]),
        ("{a}. b :- a.", vec![vec![], vec!["a", "b"]]),
        ("a :- not b. b :- not a.", vec![vec!["a"], vec!["b"]]),
        ("p(X/2) :- X = 4..5.", vec![vec!["p(2)"]]),
        ("p(X\\3) :- X = 4..5.", vec![vec!["p(1)", "p(2)"]]),
        ("{a}. :- a.", vec![vec![]]),
        ("p(1). q(X+1) :- p(X), X < 2. :- q(3).", vec![vec!["p(1)", "q(2)"]]),
        ("p(a). q(X) :- p(X), X > 5.", vec![vec!["p(a)", "q(a)"]]),
        ("p(1). q :- p(X), not not q.", vec![vec!["p(1)"], vec!["p(1)", "q"]]),
        ("p(-7/2).", vec![vec!["p(-4)"]]),
        ("p(5/0). q :- not p(1).", vec![vec!["q"]]),
    ];
    let ph = BTreeMap::new();
    for (text, expect) in &cases {
        let text = text.to_string();
        let prog = match parse_program(&text) {
            Ok(p) => p,
            Err(e) => return fail("self-test program does not parse", format!("{text}: {e}")),
        };
        let rs = RefStats::default();
        let re = Ref { placeholders: &ph, div: DivConv::Repo, stats: &rs };
        let fb = fallback_values(&prog, &[], &[]);
        let Some(models) = re.stable_models(&prog, &AtomSet::new(), &fb, 10) else { return fail("stable model enumeration undecided", text.to_string()) };
        let show = |m: &AtomSet| -> Vec<String> {
            let mut v: Vec<String> = m.iter().map(|(p, t)| if t.is_empty() { p.clone() } else { format!("{}({})", p, t.iter().map(|x| x.show()).collect::<Vec<_>>().join(",")) }).collect();
            v.sort();
            v
        };
        let mut got: Vec<Vec<String>> = models.iter().map(show).collect();
        got.sort();
        let mut want: Vec<Vec<String>> = expect.iter().map(|m| { let mut v: Vec<String> = m.iter().map(|s| s.to_string()).collect(); v.sort(); v }).collect();
        want.sort();
        if got != want {
            return fail("reference stable models differ from the hand-computed ones", format!("{text}\n got {got:?}\nwant {want:?}"));
        }
    }
    // 4. strict TFF reader: accepts what the repository's own syntax checker accepts on the
    //    problems of the example tasks, and both reject the known-bad shapes
    let tptp4x = std::path::Path::new("/repo/tests/examples/tptp4X_linux");
    let tmp = crate::run::scratch_dir(cfg, "selftest");
    let mut checked = 0;
    let mut tasks: Vec<(String, Vec<String>)> = Vec::new();
    for d in ["strong_equivalence/bounds", "strong_equivalence/choice", "strong_equivalence/squares", "strong_equivalence/successor", "strong_equivalence/transitive", "strong_equivalence/trivial"] {
        tasks.push(("strong".into(), vec![format!("/repo/res/examples/{d}")]));
    }
    for d in ["external_equivalence/coloring", "external_equivalence/cover", "external_equivalence/division", "external_equivalence/primes/simple", "external_equivalence/trivial/propositional", "external_equivalence/trivial/first_order"] {
        tasks.push(("external".into(), vec![format!("/repo/res/examples/{d}")]));
    }
    for (eq, args) in &tasks {
        let out = tmp.join(format!("o{checked}"));
        std::fs::create_dir_all(&out).unwrap();
        let mut a: Vec<String> = vec!["verify".into(), "--equivalence".into(), eq.clone(), "--no-proof-search".into(), "--save-problems".into(), out.to_str().unwrap().into()];
        a.extend(args.iter().cloned());
        let argv: Vec<&str> = a.iter().map(|s| s.as_str()).collect();
        let Ok(o) = run_cli(&cfg.anthem_release(), &argv, None, &[], None) else { continue };
        if o.code != Some(0) {
            continue;
        }
        for e in std::fs::read_dir(&out).unwrap().flatten() {
            let text = std::fs::read_to_string(e.path()).unwrap();
            // tptp4X checks syntax only, so the comparison is with the reader's syntax level
            let mine = crate::kit::tptp::parse(&text);
            let theirs = if tptp4x.exists() { std::process::Command::new(tptp4x).arg(e.path()).output().map(|o| o.status.success()).unwrap_or(true) } else { true };
            checked += 1;
            if mine.is_err() && theirs {
                let _ = std::fs::remove_dir_all(&tmp);
                return fail("strict TFF reader rejects an example problem that tptp4X accepts", format!("{}: {:?}", e.path().display(), mine.err().map(|e| e.msg)));
            }
        }
    }
    let bad = [
        ("tff(t, type, p: $o).\ntff(t2, type, q: $o).\ntff(c, conjecture, p & q => p).", "ambiguous associativity"),
        ("tff(t, type, p: $o).\ntff(c, conjecture, ~p & ).", "syntax"),
    ];
    for (text, what) in bad {
        if read_problem(text).is_ok() {
            let _ = std::fs::remove_dir_all(&tmp);
            return fail("strict TFF reader accepts a malformed problem", format!("{what}: {text}"));
        }
        if tptp4x.exists() {
            let f = tmp.join("bad.p");
            std::fs::write(&f, text).unwrap();
            let ok = std::process::Command::new(tptp4x).arg(&f).output().map(|o| o.status.success()).unwrap_or(false);
            if ok {
                eprintln!("[avm selftest] note: tptp4X accepts `{what}` although the strict reader (TPTP BNF) rejects it");
            }
        }
    }
    let _ = std::fs::remove_dir_all(&tmp);
    if checked < 20 {
        return fail("too few example problems were read", format!("{checked}"));
    }
    let _ = (small_pool(), Sort::G);
    println!("[avm selftest] ok: {compared} evaluator/brute-force comparisons, {laws} metamorphic comparisons, {} stable-model cases, {checked} example problems read", cases.len());
    0
}
