pub mod common;
pub mod c01;

use crate::run::Config;

pub fn dispatch(cfg: &Config) -> i32 {
    match cfg.prop.as_str() {
        "C01" => c01::run(cfg),
        other => {
            eprintln!("[avm] no monitor for property {other}");
            2
        }
    }
}
