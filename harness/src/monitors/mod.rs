pub mod c20;
pub mod common;
pub mod selftest;
pub mod sem;
pub mod roundtrip;
pub mod c01;
pub mod c02;
pub mod c03;
pub mod c04;
pub mod c05;
pub mod c06;
pub mod c07;
pub mod c10;
pub mod c11;
pub mod c12;
pub mod c13;
pub mod c16;
pub mod c17;
pub mod c18;
pub mod c19;
pub mod c08;
pub mod c09;

use crate::run::Config;

pub fn dispatch(cfg: &Config) -> i32 {
    match cfg.prop.as_str() {
        "selftest" => selftest::run(cfg),
        "C01" => c01::run(cfg),
        "C02" => c02::run(cfg),
        "C03" => c03::run(cfg),
        "C04" => c04::run(cfg),
        "C05" => c05::run(cfg),
        "C06" => c06::run(cfg),
        "C07" => c07::run(cfg),
        "C10" => c10::run(cfg),
        "C11" => c11::run(cfg),
        "C12" => c12::run(cfg),
        "C13" => c13::run(cfg),
        "C14" => roundtrip::run_c14(cfg),
        "C15" => roundtrip::run_c15(cfg),
        "C16" => c16::run(cfg),
        "C17" => c17::run(cfg),
        "C18" => c18::run(cfg),
        "C19" => c19::run(cfg),
        "C20" => c20::run(cfg),
        "C08" => c08::run(cfg),
        "C09" => c09::run(cfg),
        other => {
            eprintln!("[avm] no monitor for property {other}");
            2
        }
    }
}
