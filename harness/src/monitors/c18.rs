//! C18: fixpoint simplification terminates (bounded progress in logical steps), is idempotent,
//! and all outputs are deterministic across repeated runs in fresh processes.
use crate::kit::generate::{FolOpts, ProgOpts, gen_formula, gen_program};
use crate::kit::json::J;
use crate::kit::rng::{Rng, fnv};
use crate::kit::simp::{PORTFOLIOS, Strategy, node_count, run_strategy};
use crate::kit::tasks::*;
use crate::monitors::c07::gen_input;
use crate::monitors::common::*;
use crate::run::{Config, Outcome, Stats, finish, parallel, scratch_dir};
use either::Either;
use std::path::Path;
use std::time::{Duration, Instant};

fn termination_case(cfg: &Config, idx: u64, r: &mut Rng, st: &mut Stats) {
    for (f, source) in gen_input(r, cfg.pick(3, 4)).into_iter().take(3) {
        let nodes = node_count(&f);
        if idx < 2 {
            st.sample(J::obj().set("kind", J::s("fixpoint")).set("source", J::s(&source)).set("formula", J::s(f.to_string())));
        }
        for p in PORTFOLIOS {
            let bound = 4_000 + nodes * 200;
            let mut res = run_strategy(p, Strategy::Fixpoint, f.clone(), bound, 0);
            if matches!(&res, Err(e) if e == "AVM_STEP_LIMIT") {
                st.inc("step_bound_hits_first_level");
                res = run_strategy(p, Strategy::Fixpoint, f.clone(), bound * 10, 0);
            }
            match res {
                Err(e) if e == "AVM_STEP_LIMIT" => {
                    st.eval(None);
                    st.violation(
                        "fixpoint-does-not-terminate",
                        format!("{} fixpoint did not reach a fixpoint within {} node visits ({} nodes): {}", p.cli_name(), bound * 10, nodes, f),
                        J::obj().set("portfolio", J::s(p.cli_name())).set("formula", J::s(f.to_string())),
                    );
                }
                Err(_) => st.inc("lost_to_panic_see_C16"),
                Ok((g, trace)) => {
                    st.inc("fixpoint_runs");
                    let passes = trace.invocations / nodes.max(1) + 1;
                    st.max("max_passes_estimate", passes);
                    st.max("max_node_visits", trace.invocations);
                    // simplifying the result again returns it unchanged
                    match run_strategy(p, Strategy::Fixpoint, g.clone(), bound * 10, 0) {
                        Ok((g2, _)) => {
                            if g2 != g {
                                st.eval(None);
                                st.violation("fixpoint-not-idempotent", format!("{}: fix(fix(F)) differs from fix(F) for {}", p.cli_name(), f), J::obj().set("formula", J::s(f.to_string())).set("once", J::s(g.to_string())).set("twice", J::s(g2.to_string())));
                            } else {
                                st.inc("idempotence_checks");
                                st.eval(Some(&format!("{}|{}", p.cli_name(), f)));
                            }
                        }
                        Err(_) => st.inc("second_run_undecided"),
                    }
                    // same input twice in one process
                    if let Ok((g3, _)) = run_strategy(p, Strategy::Fixpoint, f.clone(), bound * 10, 0) {
                        if g3 != g {
                            st.violation("in-process-nondeterminism", format!("{}: two runs on {} differ", p.cli_name(), f), J::obj().set("formula", J::s(f.to_string())));
                        }
                    }
                }
            }
        }
    }
}

/// termination of the real binary: `anthem simplify --strategy fixpoint` in a child process under
/// a CPU-time limit (20 s, confirmed with 200 s). A rewrite that never returns cannot be counted
/// from inside (the step counter sits between rewrite calls); the child process can be killed.
fn cli_termination_case(cfg: &Config, tmp: &Path, idx: u64, r: &mut Rng, st: &mut Stats) {
    use crate::monitors::c16::{Class, run_limited};
    let inputs: Vec<(anthem::syntax_tree::fol::sigma_0::Formula, String)> = gen_input(r, cfg.pick(3, 4)).into_iter().take(3).collect();
    let closed: Vec<String> = inputs.iter().filter(|(f, _)| f.free_variables().is_empty()).map(|(f, _)| format!("{f}.")).collect();
    if closed.is_empty() {
        return;
    }
    let d = tmp.join(format!("t{idx}"));
    std::fs::create_dir_all(&d).unwrap();
    std::fs::write(d.join("t.spec"), closed.join("\n")).unwrap();
    for p in PORTFOLIOS {
        let bin = if idx % 2 == 0 { cfg.anthem_release() } else { cfg.anthem_dev() };
        let args: Vec<String> = vec!["simplify".into(), "--portfolio".into(), p.cli_name().into(), "--strategy".into(), "fixpoint".into(), "t.spec".into()];
        st.inc("cli_fixpoint_runs");
        match run_limited(&bin, &args, Some(&d), 20) {
            Class::Hang => {
                st.eval(None);
                st.violation(
                    "fixpoint-does-not-terminate",
                    format!("`anthem simplify --portfolio {} --strategy fixpoint` exceeded the CPU-time limit on {}", p.cli_name(), closed.join(" ")),
                    J::obj().set("portfolio", J::s(p.cli_name())).set("theory", J::s(closed.join("\n"))),
                );
            }
            Class::Ok | Class::ReportedError => st.eval(Some(&format!("cli|{}|{}", p.cli_name(), closed.join(" ")))),
            _ => st.inc("cli_fixpoint_runs_without_verdict"),
        }
    }
    let _ = std::fs::remove_dir_all(&d);
}

/// the same input twice in ONE process: translations and the problems of a task are built twice
/// from the same parsed input and must be identical (names and texts); state that survives a call
/// (a process-wide counter, a cache) shows here and not in fresh processes
fn in_process_case(_cfg: &Config, idx: u64, r: &mut Rng, st: &mut Stats) {
    use anthem::translating::formula_representation::{mu::Mu, natural::Natural, tau_star::TauStar};
    let flags = Flags::random(r);
    let same = |a: &Built, b: &Built| -> Option<bool> {
        match (a, b) {
            (Built::Ok { problems: x, .. }, Built::Ok { problems: y, .. }) => Some(x.len() == y.len() && x.iter().zip(y.iter()).all(|(p, q)| p.name == q.name && p.text == q.text)),
            (Built::Refused(x), Built::Refused(y)) => Some(x == y),
            _ => None,
        }
    };
    if idx % 2 == 0 {
        let eo = ExtOpts { hostile_identifiers: r.chance(1, 3), max_outputs: 3, ..Default::default() };
        let (mut t, _) = gen_external(r, &eo);
        if r.chance(1, 2) {
            // unnamed and named outline entries
            t.po = ["lemma: forall X (X = X).", "lemma[l]: forall X (X = X).\nlemma: 1 = 1.", "definition: forall X (dd(X) <-> X = 1).\nlemma: forall X (dd(X) -> X = 1)."][r.upto(3)].to_string();
        }
        let Ok(parsed) = parse_ext(&t) else { return };
        let a = build_external(&parsed, true, flags);
        let b = build_external(&parsed, true, flags);
        st.inc("in_process_repetitions_external");
        match same(&a, &b) {
            Some(true) => st.eval(Some(&format!("ext|{}|{}", t.right, flags.tag()))),
            Some(false) => {
                st.eval(None);
                st.violation("in-process-nondeterminism:verify-external", "building the problems of one external task twice in one process gives different names or texts", crate::monitors::c09::origin_ext(&t, flags));
            }
            None => st.inc("in_process_repetitions_undecided"),
        }
    } else {
        let so = StrongOpts { hostile_names: r.chance(1, 3), hostile_symbols: r.chance(1, 3), ..Default::default() };
        let (l, rt) = gen_strong_with(r, so);
        let (Ok(lp), Ok(rp)) = (parse_program(&l), parse_program(&rt)) else { return };
        let mu = r.chance(1, 2);
        let a = build_strong(&lp, &rp, mu, flags);
        let b = build_strong(&lp, &rp, mu, flags);
        st.inc("in_process_repetitions_strong");
        match same(&a, &b) {
            Some(true) => st.eval(Some(&format!("strong|{l}|{rt}|{}", flags.tag()))),
            Some(false) => {
                st.eval(None);
                st.violation("in-process-nondeterminism:verify-strong", "building the problems of one strong task twice in one process gives different names or texts", J::obj().set("left", J::s(&l)).set("right", J::s(&rt)).set("flags", J::s(flags.tag())));
            }
            None => st.inc("in_process_repetitions_undecided"),
        }
        // translations
        let t1 = (crate::run::guarded(|| lp.clone().tau_star().to_string()), crate::run::guarded(|| lp.clone().mu().to_string()), crate::run::guarded(|| lp.clone().natural().map(|t| t.to_string())));
        let t2 = (crate::run::guarded(|| lp.clone().tau_star().to_string()), crate::run::guarded(|| lp.clone().mu().to_string()), crate::run::guarded(|| lp.clone().natural().map(|t| t.to_string())));
        st.inc("in_process_repetitions_translate");
        if t1 != t2 {
            st.eval(None);
            st.violation("in-process-nondeterminism:translate", "translating one program twice in one process gives different text", J::obj().set("program", J::s(&l)));
        }
    }
}

fn hash_dir(d: &Path) -> Vec<(String, u64)> {
    let mut v = Vec::new();
    if let Ok(rd) = std::fs::read_dir(d) {
        for e in rd.flatten() {
            let name = e.file_name().to_string_lossy().to_string();
            let content = std::fs::read(e.path()).unwrap_or_default();
            v.push((name, fnv(&String::from_utf8_lossy(&content))));
        }
    }
    v.sort();
    v
}

/// runs the same command three times in fresh processes; outputs must be byte-identical
fn determinism_case(cfg: &Config, tmp: &Path, idx: u64, r: &mut Rng, st: &mut Stats) {
    let d = tmp.join(format!("d{idx}"));
    std::fs::create_dir_all(&d).unwrap();
    let mut runs: Vec<(String, Vec<String>, bool)> = Vec::new(); // (label, args, has out dir)
    match r.below(5) {
        4 => {
            // large tasks: 18-40 rules and constraints over many public predicates, some of them
            // much more expensive to translate and simplify than others (work that is spread
            // over threads or kept in hashed collections shows in the order of the output)
            let n = 18 + r.upto(23);
            let np = 6 + r.upto(10);
            let mut rules: Vec<String> = Vec::new();
            for i in 0..n {
                let h = r.upto(np);
                let b = r.upto(np);
                let c = r.upto(np);
                rules.push(match r.below(6) {
                    0 => format!(":- p{h}(X), X > {}.", r.range(3, 9)),
                    1 => format!("p{h}(X) :- in(X), not p{b}(X)."),
                    2 => format!("p{h}(X+{}) :- p{b}(X), X = 0..{}, Y = X*X+{i}, Y != {}.", r.range(1, 3), r.range(2, 6), r.range(0, 9)),
                    3 => format!("{{p{h}(X)}} :- in(X), p{b}(X), not not p{c}(X)."),
                    4 => format!(":- p{h}(X), p{b}(Y), X = Y+{}, X*Y > {}, not in(X+Y).", r.range(0, 3), r.range(0, 20)),
                    _ => format!("p{h}(X) :- in(X), X != {}.", r.range(0, 5)),
                });
            }
            // a positive cycle (both programs are non-tight: two different warnings under
            // --bypass-tightness) and user-guide formulas with roles that are ignored with a
            // warning: several distinct warnings whose order must be reproducible as well
            rules.push("p0(X) :- p1(X), in(X).".to_string());
            rules.push("p1(X) :- p0(X).".to_string());
            let left = rules.join("\n");
            let right = rewrite_program(r, &left);
            let mut ug = vec!["input: in/1.".to_string()];
            if r.chance(2, 3) {
                ug.push("spec: forall X (in(X) -> in(X)).".to_string());
                ug.push("lemma: forall X (in(X) or not in(X)).".to_string());
                if r.chance(1, 2) {
                    ug.push("definition: forall X (in(X) <-> in(X)).".to_string());
                }
            }
            for i in 0..np {
                ug.push(format!("output: p{i}/1."));
            }
            r.shuffle(&mut ug);
            std::fs::write(d.join("a.1.lp"), &left).unwrap();
            std::fs::write(d.join("a.2.lp"), &right).unwrap();
            std::fs::write(d.join("a.ug"), ug.join("\n")).unwrap();
            let flags = Flags::random(r);
            let mut args: Vec<String> = vec!["verify".into(), "--equivalence".into(), "external".into(), "--no-proof-search".into(), "--save-problems".into(), "out".into(), "--bypass-tightness".into()];
            args.extend(flags.cli_args());
            args.extend(["a.1.lp".to_string(), "a.2.lp".to_string(), "a.ug".to_string()]);
            runs.push(("verify-external-large".into(), args, true));
            let mut args: Vec<String> = vec!["verify".into(), "--equivalence".into(), "strong".into(), "--no-proof-search".into(), "--save-problems".into(), "out".into()];
            args.extend(flags.cli_args());
            args.extend(["a.1.lp".to_string(), "a.2.lp".to_string()]);
            runs.push(("verify-strong-large".into(), args, true));
            st.inc("large_tasks");
        }
        0 => {
            let mut o = ProgOpts::default();
            o.safe = r.chance(1, 2);
            o.max_rules = 5;
            std::fs::write(d.join("p.lp"), gen_program(r, &o)).unwrap();
            for w in ["tau-star", "mu", "natural"] {
                runs.push((format!("translate-{w}"), vec!["translate".into(), "--with".into(), w.into(), "p.lp".into()], false));
            }
            for p in ["tightness", "regularity"] {
                runs.push((format!("analyze-{p}"), vec!["analyze".into(), "--property".into(), p.into(), "p.lp".into()], false));
            }
        }
        1 => {
            let n = 1 + r.upto(3);
            let t = (0..n).map(|_| format!("{}.", gen_formula(r, &FolOpts::default(), 3))).collect::<Vec<_>>().join("\n");
            std::fs::write(d.join("t.spec"), t).unwrap();
            runs.push(("translate-gamma".into(), vec!["translate".into(), "--with".into(), "gamma".into(), "t.spec".into()], false));
            runs.push(("simplify".into(), vec!["simplify".into(), "--portfolio".into(), ["classic", "ht", "intuitionistic"][r.upto(3)].into(), "--strategy".into(), "fixpoint".into(), "t.spec".into()], false));
            // completion of a tau* theory
            let mut o = ProgOpts::default();
            o.max_rules = 5;
            let p = gen_program(r, &o);
            if let Ok(pp) = parse_program(&p) {
                use anthem::translating::formula_representation::tau_star::TauStar;
                if let Ok(th) = crate::run::guarded(|| pp.tau_star()) {
                    std::fs::write(d.join("c.spec"), th.to_string()).unwrap();
                    runs.push(("translate-completion".into(), vec!["translate".into(), "--with".into(), "completion".into(), "c.spec".into()], false));
                }
            }
        }
        2 => {
            let so = StrongOpts { hostile_names: r.chance(1, 2), hostile_symbols: r.chance(1, 2), ..Default::default() };
            let (l, rt) = gen_strong_with(r, so);
            std::fs::write(d.join("a.1.lp"), l).unwrap();
            std::fs::write(d.join("a.2.lp"), rt).unwrap();
            let flags = Flags::random(r);
            let mut args: Vec<String> = vec!["verify".into(), "--equivalence".into(), "strong".into(), "--no-proof-search".into(), "--save-problems".into(), "out".into()];
            args.extend(flags.cli_args());
            args.extend(["a.1.lp".to_string(), "a.2.lp".to_string()]);
            runs.push(("verify-strong".into(), args, true));
        }
        _ => {
            // many declared predicates, several of them missing from one side: collections whose
            // iteration order reaches the output get more than one element
            let eo = ExtOpts { hostile_identifiers: r.chance(1, 2), max_outputs: 4, skip_many_outputs: r.chance(1, 2), max_privates: 3, ..Default::default() };
            let (t, _) = gen_external(r, &eo);
            if let Either::Left(l) = &t.left {
                std::fs::write(d.join("a.1.lp"), l).unwrap();
            }
            std::fs::write(d.join("a.2.lp"), &t.right).unwrap();
            std::fs::write(d.join("a.ug"), &t.ug).unwrap();
            let flags = Flags::random(r);
            let mut args: Vec<String> = vec!["verify".into(), "--equivalence".into(), "external".into(), "--no-proof-search".into(), "--save-problems".into(), "out".into(), "--bypass-tightness".into()];
            args.extend(flags.cli_args());
            args.extend(["a.1.lp".to_string(), "a.2.lp".to_string(), "a.ug".to_string()]);
            runs.push(("verify-external".into(), args, true));
        }
    }
    let mut watchdog_fired = false;
    for (label, args, has_out) in runs {
        if watchdog_fired {
            // a command of this case did not finish: inconclusive, do not wait for the others
            break;
        }
        let argv: Vec<&str> = args.iter().map(|s| s.as_str()).collect();
        let mut observed: Vec<(Option<i32>, u64, u64, Vec<(String, u64)>)> = Vec::new();
        for k in 0..3 {
            let out = d.join("out");
            let _ = std::fs::remove_dir_all(&out);
            if has_out {
                std::fs::create_dir_all(&out).unwrap();
            }
            // alternate the binaries' profiles between cases, never within a comparison
            let bin = if idx % 2 == 0 { cfg.anthem_release() } else { cfg.anthem_dev() };
            let Ok(o) = run_cli(&bin, &argv, None, &[("AVM_RUN", &k.to_string())], Some(&d)) else {
                st.inc("cli_runs_ended_by_the_wall_clock_watchdog");
                watchdog_fired = true;
                break;
            };
            observed.push((o.code, fnv(&String::from_utf8_lossy(&o.stdout_bytes)), o.stdout_bytes.len() as u64, if has_out { hash_dir(&out) } else { vec![] }));
            st.inc("cli_runs");
        }
        if observed.len() == 3 {
            st.inc("repeated_run_comparisons");
            st.inc(&format!("repeated_run_comparisons_{}", label.split('-').next().unwrap()));
            if label.ends_with("-large") && observed[0].0 == Some(0) && !observed[0].3.is_empty() {
                st.inc("large_tasks_accepted_with_problems_written");
                st.max("max_problem_files_of_a_large_task", observed[0].3.len() as u64);
            }
            if observed[0] != observed[1] || observed[1] != observed[2] {
                st.eval(None);
                let mut files = J::obj();
                if let Ok(rd) = std::fs::read_dir(&d) {
                    for e in rd.flatten() {
                        if e.path().is_file() {
                            files.put(e.file_name().to_string_lossy().to_string(), J::s(std::fs::read_to_string(e.path()).unwrap_or_default()));
                        }
                    }
                }
                st.violation(format!("nondeterministic-output:{label}"), format!("three runs of `anthem {}` in fresh processes produced different output", args.join(" ")), J::obj().set("args", J::strs(&args)).set("files", files));
            } else {
                st.eval(Some(&format!("{label}|{:?}", observed[0])));
            }
        }
    }
    let _ = std::fs::remove_dir_all(&d);
}

pub fn run(cfg: &Config) -> i32 {
    let started = Instant::now();
    require_binaries(cfg);
    let tmp = scratch_dir(cfg, "c18");
    let budget = Duration::from_secs_f64(cfg.pick(30.0, 300.0) * cfg.scale);
    // the child-process stream comes first: if a rewrite never returns, the in-process stream
    // below cannot finish either, and the watchdog then reports what this stream recorded
    let mut stats = parallel(cfg, "termination-cli", cfg.scaled(cfg.pick(600, 100_000)), budget, |idx, r, st| cli_termination_case(cfg, &tmp, idx, r, st));
    let s0 = parallel(cfg, "termination", cfg.scaled(cfg.pick(20_000, 3_000_000)), budget, |idx, r, st| termination_case(cfg, idx, r, st));
    stats.merge(s0);
    let s2 = parallel(cfg, "determinism", cfg.scaled(cfg.pick(1200, 300_000)), budget, |idx, r, st| determinism_case(cfg, &tmp, idx, r, st));
    stats.merge(s2);
    let s3 = parallel(cfg, "in-process", cfg.scaled(cfg.pick(3000, 500_000)), budget / 3, |idx, r, st| in_process_case(cfg, idx, r, st));
    stats.merge(s3);
    let _ = std::fs::remove_dir_all(&tmp);
    finish(
        cfg,
        started,
        Outcome {
            stats,
            level: "exploration",
            rule: "(a) C07's formula sources under the fixpoint strategy of each portfolio through the real apply_fixpoint with a closure that counts node visits: bound 4000 + 200 x nodes (the largest number of node visits seen on the unchanged tree is below 2000), re-run with 10x before a non-termination verdict (bounded progress in logical steps, no wall clock), fix(fix(F)) = fix(F), two in-process runs equal; (b) generated programs, theories and verification tasks: each command (translate x5, simplify, analyze x2, verify --no-proof-search --save-problems for strong and external tasks) is run three times in fresh processes and stdout, exit status and every saved file must be byte-identical; a case is a distinct (portfolio, formula) or (command, output)".into(),
            assumptions: vec!["termination is decided as bounded progress; an unbounded 'eventually' is not decidable by a finite run".into()],
            floor: cfg.pick(20_000, 100_000),
            floor_counter: "fixpoint_runs".into(),
            known_replayed: vec![],
            extra: J::obj(),
        },
    )
}
