//! C14 / C15: print-parse round trips of the ASP and target-language syntax trees.
use crate::kit::generate::{FolOpts, ProgOpts, gen_formula, gen_program, gen_regular_rule, gen_rule};
use crate::kit::json::J;
use crate::kit::redex::gen_redex;
use crate::kit::rng::Rng;
use crate::monitors::common::*;
use crate::run::{Config, KnownFinding, Outcome, Stats, finish, guarded, load_known, parallel, scratch_dir};
use anthem::syntax_tree::{asp::mini_gringo as asp, fol::sigma_0 as fol};
use std::fmt::{Debug, Display};
use std::str::FromStr;
use std::time::{Duration, Instant};

/// returns true if the text was accepted (and therefore checked)
pub fn roundtrip<T>(kind: &str, text: &str, classify: &dyn Fn(&str, &str) -> String, st: &mut Stats) -> bool
where
    T: FromStr + Display + PartialEq + Debug,
    <T as FromStr>::Err: Display,
{
    let a = match guarded(|| text.parse::<T>()) {
        Ok(Ok(a)) => a,
        Ok(Err(_)) => {
            st.inc(&format!("rejected_{kind}"));
            return false;
        }
        Err(_) => {
            st.inc("lost_to_panic_see_C16");
            return false;
        }
    };
    st.inc(&format!("accepted_{kind}"));
    let t = match guarded(|| a.to_string()) {
        Ok(t) => t,
        Err(p) => {
            st.eval(None);
            st.violation(format!("{kind}:print-panic"), format!("printing panicked: {p}"), J::obj().set("kind", J::s(kind)).set("text", J::s(text)));
            return true;
        }
    };
    let detail = || J::obj().set("kind", J::s(kind)).set("text", J::s(text)).set("printed", J::s(&t));
    match guarded(|| t.parse::<T>()) {
        Ok(Ok(b)) => {
            if b != a {
                st.eval(None);
                let root = classify(text, &t);
                let class = if root == "unclassified" { format!("{kind}:reparse-differs:unclassified") } else { root };
                st.violation(class, format!("{kind}: `{text}` prints as `{t}` which parses to a different tree"), detail().set("reparsed_prints_as", J::s(b.to_string())));
            } else {
                let t2 = b.to_string();
                if t2 != t {
                    st.eval(None);
                    st.violation(format!("{kind}:print-not-stable"), format!("{kind}: printing the re-parsed tree gives `{t2}` instead of `{t}`"), detail());
                } else {
                    st.inc("roundtrips_ok");
                    st.eval(Some(&format!("{kind}|{t}")));
                }
            }
        }
        Ok(Err(e)) => {
            st.eval(None);
            let root = classify(text, &t);
            let class = if root == "unclassified" { format!("{kind}:reparse-fails:unclassified") } else { root };
            st.violation(class, format!("{kind}: `{text}` prints as `{t}` which anthem rejects"), detail().set("error", J::s(e.to_string().lines().take(4).collect::<Vec<_>>().join(" | "))));
        }
        Err(p) => {
            st.eval(None);
            st.violation(format!("{kind}:reparse-panic"), format!("{kind}: re-parsing `{t}` panicked: {p}"), detail());
        }
    }
    true
}

fn no_class(_: &str, _: &str) -> String {
    "unclassified".into()
}

/// root cause recogniser for the ASP side: the keyword `not` used as a symbolic constant (the
/// grammar accepts it when it is not followed by white space, e.g. `p(not*3)`; printed with
/// spaces around operators it becomes a negation sign)
fn asp_class(text: &str, printed: &str) -> String {
    let is_ident = |c: char| c.is_ascii_alphanumeric() || c == '_';
    for t in [text, printed] {
        let b: Vec<char> = t.chars().collect();
        let mut i = 0;
        while i + 3 <= b.len() {
            if b[i] == 'n' && b[i + 1] == 'o' && b[i + 2] == 't' && (i == 0 || !is_ident(b[i - 1])) && (i + 3 == b.len() || !is_ident(b[i + 3])) {
                // a negation sign is followed by white space and then by an atom (identifier)
                let mut j = i + 3;
                while j < b.len() && b[j].is_whitespace() {
                    j += 1;
                }
                let sign = j > i + 3 && j < b.len() && (b[j].is_ascii_lowercase() || b[j] == '_' || b[j] == 'n');
                if !sign {
                    return "symbol-named-not".into();
                }
            }
            i += 1;
        }
    }
    "unclassified".into()
}

// ------------------------------------------------------------------------------------------
// C14

fn spacing(r: &mut Rng) -> &'static str {
    ["", " ", "  ", "\n", " % c\n"][r.upto(5)]
}

/// terms with few parentheses, unary minus chains, negative numerals, nested intervals
pub fn gen_flat_term(r: &mut Rng, depth: u32) -> String {
    if depth == 0 || r.below(3) == 0 {
        return match r.below(9) {
            0 | 1 => ["X", "Y", "Var1", "N0"][r.upto(4)].to_string(),
            2 => format!("{}", r.range(-5, 5)),
            3 => format!("-{}", r.range(0, 5)),
            4 => format!("- {}", r.range(0, 5)),
            5 => ["a", "b", "_c", "aB_1", "nota", "not_", "a", "b", "_c", "aB_1", "b", "not"][r.upto(12)].to_string(),
            6 => ["#inf", "#sup", "#infimum", "#supremum"][r.upto(4)].to_string(),
            7 => format!("-{}", ["X", "Y"][r.upto(2)]),
            _ => format!("({})", gen_flat_term(r, 1)),
        };
    }
    match r.below(10) {
        0 => format!("-{}", gen_flat_term(r, depth - 1)),
        1 => format!("- -{}", gen_flat_term(r, depth - 1)),
        2 => format!("-({})", gen_flat_term(r, depth - 1)),
        3 => format!("({})", gen_flat_term(r, depth - 1)),
        _ => {
            let op = ["+", "-", "*", "/", "\\", "..", "..", "-"][r.upto(8)];
            let sp = [" ", "", " "][r.upto(3)];
            format!("{}{sp}{op}{sp}{}", gen_flat_term(r, depth - 1), gen_flat_term(r, depth - 1))
        }
    }
}

fn gen_flat_atom(r: &mut Rng) -> String {
    let p = ["p", "q", "r", "_s", "t1"][r.upto(5)];
    match r.below(4) {
        0 => p.to_string(),
        1 if r.chance(1, 3) => format!("{p}()"),
        _ => {
            let n = 1 + r.upto(3);
            let args: Vec<String> = (0..n).map(|_| gen_flat_term(r, 2)).collect();
            format!("{}({})", p, args.join([",", ", ", " , "][r.upto(3)]))
        }
    }
}

pub fn gen_flat_rule(r: &mut Rng) -> String {
    let head = match r.below(6) {
        0 => String::new(),
        1 => "#false".into(),
        2 => format!("{{{}}}", gen_flat_atom(r)),
        3 => format!("{{ {} }}", gen_flat_atom(r)),
        _ => gen_flat_atom(r),
    };
    let nb = r.upto(4);
    let mut body = Vec::new();
    for _ in 0..nb {
        if r.chance(1, 2) {
            body.push(format!("{}{}", ["", "not ", "not not ", "not  not "][r.upto(4)], gen_flat_atom(r)));
        } else {
            body.push(format!("{} {} {}", gen_flat_term(r, 2), ["=", "!=", "<", "<=", ">", ">="][r.upto(6)], gen_flat_term(r, 2)));
        }
    }
    let sep = [", ", "; ", ","][r.upto(3)];
    if body.is_empty() {
        match r.below(3) {
            0 => format!("{head}{}:-{}.", spacing(r), spacing(r)),
            _ if !head.is_empty() => format!("{head}{}.", spacing(r)),
            _ => ":- .".into(),
        }
    } else {
        format!("{head}{}:-{}{}{}.", spacing(r), spacing(r), body.join(sep), spacing(r))
    }
}

fn asp_case(cfg: &Config, tmp: &std::path::Path, idx: u64, r: &mut Rng, st: &mut Stats) {
    let text = match r.below(6) {
        0 => gen_program(r, &ProgOpts::default()),
        1 => {
            let preds: Vec<(String, usize)> = vec![("p".into(), 1), ("q".into(), 2)];
            gen_regular_rule(r, &preds, 4)
        }
        2 => {
            let mut o = ProgOpts::default();
            o.safe = false;
            o.term_depth = 3;
            o.extreme_numerals = true;
            gen_rule(r, &o)
        }
        _ => {
            let n = 1 + r.upto(3);
            (0..n).map(|_| gen_flat_rule(r)).collect::<Vec<_>>().join(spacing(r))
        }
    };
    if idx < 3 {
        st.sample(J::obj().set("program_text", J::s(&text)).set("printed", J::s(text.parse::<asp::Program>().map(|p| p.to_string()).unwrap_or("rejected".into()))));
    }
    let accepted = roundtrip::<asp::Program>("program", &text, &asp_class, st);
    if accepted {
        // the pieces as well
        if let Ok(p) = text.parse::<asp::Program>() {
            for rule in p.rules.iter().take(3) {
                roundtrip::<asp::Rule>("rule", &rule.to_string(), &asp_class, st);
                roundtrip::<asp::Head>("head", &rule.head.to_string(), &asp_class, st);
                roundtrip::<asp::Body>("body", &rule.body.to_string(), &asp_class, st);
                for t in rule.terms().iter().take(3) {
                    roundtrip::<asp::Term>("term", &t.to_string(), &asp_class, st);
                }
            }
        }
        if idx % 211 == 0 {
            let f = tmp.join(format!("c14_{idx}.lp"));
            std::fs::write(&f, &text).unwrap();
            if let (Ok(out), Ok(p)) = (run_cli(&cfg.anthem_release(), &["parse", "--as", "program", "--output", "default", f.to_str().unwrap()], None, &[], None), text.parse::<asp::Program>()) {
                st.inc("cli_runs");
                if out.code != Some(0) || out.stdout != p.to_string() {
                    st.violation("cli-differs", "`anthem parse --as program --output default` prints something else than Display", J::obj().set("text", J::s(&text)).set("stdout", J::s(out.stdout)));
                } else {
                    // feed the printed program back to the CLI
                    std::fs::write(&f, &out.stdout).unwrap();
                    if let Ok(out2) = run_cli(&cfg.anthem_release(), &["parse", "--as", "program", "--output", "default", f.to_str().unwrap()], None, &[], None) {
                        if out2.code != Some(0) || out2.stdout != out.stdout {
                            let root = asp_class(&text, &out.stdout);
                            st.violation(if root == "unclassified" { "cli-roundtrip".to_string() } else { root }, "the CLI does not accept / reproduce its own printed program", J::obj().set("text", J::s(&text)).set("printed", J::s(out.stdout)).set("second", J::s(out2.stdout)));
                        }
                    }
                }
            }
            let _ = std::fs::remove_file(&f);
        }
    }
    // single terms
    for _ in 0..3 {
        let t = gen_flat_term(r, 3);
        roundtrip::<asp::Term>("term", &t, &asp_class, st);
    }
}

fn replay_known_c14(k: &KnownFinding) -> bool {
    let Some(t) = k.witness.str("program") else { return false };
    let mut st = Stats::default();
    roundtrip::<asp::Program>("program", t, &asp_class, &mut st);
    st.violations.iter().any(|v| v.class == k.class)
}

pub fn run_c14(cfg: &Config) -> i32 {
    let started = Instant::now();
    require_binaries(cfg);
    let tmp = scratch_dir(cfg, "c14");
    let budget = Duration::from_secs_f64(cfg.pick(30.0, 300.0) * cfg.scale);
    let stats = parallel(cfg, "main", cfg.scaled(cfg.pick(300_000, 10_000_000)), budget, |idx, r, st| asp_case(cfg, &tmp, idx, r, st));
    let _ = std::fs::remove_dir_all(&tmp);
    let mut known_replayed_c14 = Vec::new();
    for k in load_known(cfg).into_iter().filter(|k| k.property == "C14" && k.status == "open") {
        let still = replay_known_c14(&k);
        known_replayed_c14.push((k, still));
    }
    finish(
        cfg,
        started,
        Outcome {
            stats,
            level: "exploration",
            rule: "mini-gringo texts from four generators (parenthesised programs, regular rules, deep unsafe rules with extreme numerals, grammar-directed flat text with random spacing, comments, redundant parentheses, unary-minus chains, negative numerals, nested intervals, all head kinds, empty bodies, ';' separators); every accepted text is parsed, printed, re-parsed (trees must be equal) and printed again (texts must be equal), for Program, Rule, Head, Body and Term; a case is a distinct accepted printed text whose round trip was checked".into(),
            assumptions: vec!["tree equality is anthem's derived PartialEq".into()],
            floor: cfg.pick(100_000, 500_000),
            floor_counter: "roundtrips_ok".into(),
            known_replayed: known_replayed_c14,
            extra: J::obj(),
        },
    )
}

// ------------------------------------------------------------------------------------------
// C15

/// formulas with few parentheses: prefix chains, equal-precedence mixes, quantifiers directly
/// over atomic formulas
pub fn gen_flat_formula(r: &mut Rng, depth: u32) -> String {
    let term = |r: &mut Rng| -> String {
        match r.below(9) {
            0 => "X".into(),
            1 => "Y$i".into(),
            2 => "Z$s".into(),
            3 => format!("{}", r.range(-3, 3)),
            4 => "a".into(),
            5 => ["#inf", "#sup"][r.upto(2)].into(),
            6 => format!("Y$i {} {}", ["+", "-", "*"][r.upto(3)], r.range(0, 3)),
            7 => ["c$g", "n$i", "s$s", "X$g", "N$", "_V", "X$integer", "Y$general", "Z$symbol"][r.upto(9)].into(),
            _ => format!("-(X$i + {})", r.range(0, 2)),
        }
    };
    let atomic = |r: &mut Rng| -> String {
        match r.below(6) {
            0 => ["#true", "#false", "s", "_p"][r.upto(4)].into(),
            1 | 2 => format!("{}({})", ["p", "q"][r.upto(2)], term(r)),
            3 => format!("r({}, {})", term(r), term(r)),
            _ => {
                let mut s = term(r);
                for _ in 0..(1 + r.upto(3)) {
                    s.push_str(&format!(" {} {}", ["=", "!=", "<", "<=", ">", ">="][r.upto(6)], term(r)));
                }
                s
            }
        }
    };
    if depth == 0 || r.below(4) == 0 {
        return atomic(r);
    }
    match r.below(9) {
        0 => format!("not {}", gen_flat_formula(r, depth - 1)),
        1 => format!("{} {} {}", ["forall", "exists"][r.upto(2)], ["X", "Y$i", "X Y$i", "Z$s X", "X$i", "N$", "X$g"][r.upto(7)], gen_flat_formula(r, depth - 1)),
        2 => format!("({})", gen_flat_formula(r, depth - 1)),
        _ => {
            let c = ["and", "or", "->", "<-", "<->", "and", "or"][r.upto(7)];
            format!("{} {} {}", gen_flat_formula(r, depth - 1), c, gen_flat_formula(r, depth - 1))
        }
    }
}

fn c15_class(_text: &str, printed: &str) -> String {
    // the known root cause: a quantifier printed directly in front of a comparison that starts
    // with a variable, so that the variable is read as one more bound variable
    let toks: Vec<&str> = printed.split_whitespace().collect();
    for w in toks.windows(3) {
        let starts_var = |s: &str| s.trim_start_matches('(').trim_start_matches('_').chars().next().map(|c| c.is_ascii_uppercase()).unwrap_or(false) && !s.starts_with('(');
        if (w[0] == "forall" || w[0] == "exists" || starts_var(w[0])) && starts_var(w[1]) && ["=", "!=", "<", "<=", ">", ">=", "+", "-", "*"].contains(&w[2]) {
            return "quantifier-directly-over-comparison-starting-with-variable".into();
        }
    }
    "unclassified".into()
}

pub fn check_formula_text(text: &str, st: &mut Stats) -> bool {
    roundtrip::<fol::Formula>("formula", text, &c15_class, st)
}

/// the text has an identifier that starts with the letters `not` (notable, nothing)
fn begins_with_not(text: &str) -> bool {
    let b = text.as_bytes();
    let is_id = |c: u8| c.is_ascii_alphanumeric() || c == b'_';
    (0..b.len().saturating_sub(3)).any(|i| &b[i..i + 3] == b"not" && (i == 0 || !is_id(b[i - 1]) && b[i - 1] != b'$' && b[i - 1] != b'#') && is_id(b[i + 3]))
}

fn fol_case(cfg: &Config, tmp: &std::path::Path, idx: u64, r: &mut Rng, st: &mut Stats) {
    use anthem::translating::classical_reduction::{completion::Completion, gamma::Gamma};
    use anthem::translating::formula_representation::{mu::Mu, natural::Natural, tau_star::TauStar};
    match r.below(8) {
        0 | 1 => {
            let t = gen_flat_formula(r, 3);
            if idx < 3 {
                st.sample(J::obj().set("formula_text", J::s(&t)).set("printed", J::s(t.parse::<fol::Formula>().map(|p| p.to_string()).unwrap_or("rejected".into()))));
            }
            check_formula_text(&t, st);
        }
        2 => {
            let mut o = FolOpts::default();
            o.consts = vec![("c".into(), crate::kit::ir::Sort::G), ("n".into(), crate::kit::ir::Sort::I), ("sy".into(), crate::kit::ir::Sort::S)];
            let t = gen_formula(r, &o, 3);
            check_formula_text(&t, st);
        }
        3 => {
            let (mut t, _) = gen_redex(r);
            if r.chance(1, 8) {
                // variable names with a leading underscore
                t = t.replace("I$i", "_I$i").replace(" Z", " _Z").replace("(Z", "(_Z");
            }
            check_formula_text(&t, st);
            // what `simplify` prints for it must be accepted again as well
            if let Ok(f) = t.parse::<fol::Formula>() {
                let p = crate::kit::simp::PORTFOLIOS[r.upto(3)];
                let sg = crate::kit::simp::STRATEGIES[r.upto(3)];
                if let Ok((g, _)) = crate::kit::simp::run_strategy(p, sg, f, 200_000, 0) {
                    st.inc("simplify_outputs");
                    let printed = g.to_string();
                    match printed.parse::<fol::Formula>() {
                        Ok(back) if back == g || back.to_string() == printed => {}
                        Ok(back) => st.violation(
                            format!("simplify-output-reparse-differs:{}", c15_class(&printed, &back.to_string())),
                            format!("the {} {:?} result does not print as itself when fed back", p.cli_name(), sg),
                            J::obj().set("input", J::s(&t)).set("printed", J::s(&printed)).set("reparsed_prints_as", J::s(back.to_string())),
                        ),
                        Err(e) => st.violation(
                            format!("simplify-output-rejected:{}", if printed.contains("_$") || printed.contains(" _ ") { "variable-named-underscore".to_string() } else { c15_class(&printed, "") }),
                            format!("the {} {:?} result is rejected by the parser: {e}", p.cli_name(), sg),
                            J::obj().set("input", J::s(&t)).set("printed", J::s(&printed)),
                        ),
                    }
                }
            }
        }
        4 => {
            // theories, specifications, user guides
            let n = 1 + r.upto(3);
            let fs: Vec<String> = (0..n).map(|_| gen_flat_formula(r, 2)).collect();
            let theory = fs.iter().map(|f| format!("{f}.")).collect::<Vec<_>>().join(spacing(r));
            roundtrip::<fol::Theory>("theory", &theory, &c15_class, st);
            let roles = ["assumption", "spec", "lemma", "definition", "inductive-lemma"];
            let spec = fs
                .iter()
                .enumerate()
                .map(|(i, f)| {
                    let dir = ["", "(forward)", "(backward)", "(universal)"][r.upto(4)];
                    let name = if r.chance(1, 2) { format!("[n{i}]") } else if r.chance(1, 4) { "[_x]".into() } else { String::new() };
                    format!("{}{dir}{name}: {f}.", roles[r.upto(roles.len())])
                })
                .collect::<Vec<_>>()
                .join("\n");
            roundtrip::<fol::Specification>("specification", &spec, &c15_class, st);
            let mut ug: Vec<String> = Vec::new();
            for _ in 0..(1 + r.upto(4)) {
                ug.push(match r.below(5) {
                    0 => format!("input: {}/{}.", ["p", "q", "_r"][r.upto(3)], r.range(0, 3)),
                    1 => format!("output: {}/{}.", ["o", "w"][r.upto(2)], r.range(0, 12)),
                    2 => format!("input: {} -> {}.", ["n", "c", "_k"][r.upto(3)], ["integer", "general", "symbol", "i", "g", "s"][r.upto(6)]),
                    3 => format!("input: {}.", ["m", "c"][r.upto(2)]),
                    _ => format!("assumption: {}.", gen_flat_formula(r, 1)),
                });
            }
            roundtrip::<fol::UserGuide>("user-guide", &ug.join("\n"), &c15_class, st);
        }
        _ => {
            // everything the translate and simplify commands print
            let mut o = ProgOpts::default();
            o.safe = r.chance(1, 2);
            if r.chance(1, 4) {
                // identifiers that begin with a keyword of the target language
                o.preds = vec![("notable".into(), 1), ("nothing".into(), 0), ("order".into(), 1), ("andy".into(), 0), ("forallx".into(), 1), ("existsy".into(), 2), ("p".into(), 1)];
                o.symbols = vec!["nota".into(), "orb".into(), "andrew".into(), "a".into()];
            }
            let text = if r.chance(1, 2) {
                gen_program(r, &o)
            } else {
                let preds: Vec<(String, usize)> = vec![("p".into(), 1), ("q".into(), 2), ("s".into(), 0)];
                gen_regular_rule(r, &preds, 4)
            };
            let Ok(prog) = parse_program(&text) else { return };
            let mut outputs: Vec<(&'static str, fol::Theory)> = Vec::new();
            if let Ok(t) = guarded(|| prog.clone().tau_star()) {
                if let Ok(g) = guarded(|| t.clone().gamma()) {
                    outputs.push(("gamma", g));
                }
                if let Ok(Some(c)) = guarded(|| t.clone().completion(indexmap::IndexSet::new())) {
                    outputs.push(("completion", c));
                }
                outputs.push(("tau-star", t));
            }
            if let Ok(Some(n)) = guarded(|| prog.clone().natural()) {
                outputs.push(("natural", n));
            }
            if let Ok(m) = guarded(|| prog.clone().mu()) {
                outputs.push(("mu", m));
            }
            let mut simplified = Vec::new();
            for (_, th) in &outputs {
                for f in th.formulas.iter().take(2) {
                    let p = crate::kit::simp::PORTFOLIOS[r.upto(3)];
                    let s = crate::kit::simp::STRATEGIES[r.upto(3)];
                    if let Ok((g, _)) = crate::kit::simp::run_strategy(p, s, f.clone(), 200_000, 0) {
                        simplified.push(g);
                    }
                }
            }
            for (name, th) in &outputs {
                st.inc(&format!("translation_outputs_{name}"));
                let printed = th.to_string();
                roundtrip::<fol::Theory>("theory", &printed, &c15_class, st);
                // fed back, the output must print as itself again: identifiers that the
                // translation takes over from the program may read differently in the target
                // language (the trees themselves may differ harmlessly, e.g. in the nesting of
                // associative connectives, which printing does not show)
                match printed.parse::<fol::Theory>() {
                    Ok(back) if back == *th || back.to_string() == printed => st.inc("translation_outputs_reproduced"),
                    Ok(back) => st.violation(
                        format!("translation-output-reparse-differs:{}", if begins_with_not(&printed) { "identifier-begins-with-not".to_string() } else { c15_class(&printed, &back.to_string()) }),
                        format!("the {name} output does not parse back to the tree that was printed"),
                        J::obj().set("program", J::s(&text)).set("printed", J::s(&printed)).set("reparsed_prints_as", J::s(back.to_string())),
                    ),
                    Err(e) => st.violation(
                        format!("translation-output-rejected:{}", c15_class(&printed, "")),
                        format!("the {name} output is rejected by the parser: {e}"),
                        J::obj().set("program", J::s(&text)).set("printed", J::s(&printed)),
                    ),
                }
            }
            for g in &simplified {
                st.inc("simplify_outputs");
                check_formula_text(&g.to_string(), st);
            }
            if idx % 97 == 0 {
                // CLI: real stdout of translate fed back to `anthem parse`
                let f = tmp.join(format!("c15_{idx}.lp"));
                std::fs::write(&f, &text).unwrap();
                let with = ["tau-star", "mu"][r.upto(2)];
                if let Ok(out) = run_cli(&cfg.anthem_release(), &["translate", "--with", with, f.to_str().unwrap()], None, &[], None) {
                    if out.code == Some(0) {
                        let g = tmp.join(format!("c15_{idx}.spec"));
                        std::fs::write(&g, &out.stdout).unwrap();
                        if let Ok(out2) = run_cli(&cfg.anthem_release(), &["parse", "--as", "theory", "--output", "default", g.to_str().unwrap()], None, &[], None) {
                            st.inc("cli_runs");
                            if out2.code != Some(0) || out2.stdout != out.stdout {
                                st.violation(format!("cli-feedback:{}", if begins_with_not(&out.stdout) { "identifier-begins-with-not".to_string() } else { c15_class("", &out.stdout) }), format!("output of `anthem translate --with {with}` is not accepted / reproduced by `anthem parse --as theory`"), J::obj().set("program", J::s(&text)).set("translate_stdout", J::s(out.stdout)).set("parse_stderr", J::s(out2.stderr)));
                            }
                        }
                        let _ = std::fs::remove_file(&g);
                    }
                }
                let _ = std::fs::remove_file(&f);
            }
        }
    }
}

fn replay_known_c15(k: &KnownFinding) -> bool {
    let Some(t) = k.witness.str("formula") else { return false };
    let mut st = Stats::default();
    check_formula_text(t, &mut st);
    st.violations.iter().any(|v| v.class == k.class)
}

pub fn run_c15(cfg: &Config) -> i32 {
    let started = Instant::now();
    require_binaries(cfg);
    let tmp = scratch_dir(cfg, "c15");
    let budget = Duration::from_secs_f64(cfg.pick(35.0, 300.0) * cfg.scale);
    let stats = parallel(cfg, "main", cfg.scaled(cfg.pick(40_000, 10_000_000)), budget, |idx, r, st| fol_case(cfg, &tmp, idx, r, st));
    let _ = std::fs::remove_dir_all(&tmp);
    let mut known_replayed = Vec::new();
    for k in load_known(cfg).into_iter().filter(|k| k.property == "C15" && k.status == "open") {
        let still = replay_known_c15(&k);
        known_replayed.push((k, still));
    }
    finish(
        cfg,
        started,
        Outcome {
            stats,
            level: "exploration",
            rule: "target-language texts: flat formulas (prefix chains, equal-precedence connective mixes, quantifiers directly over atomic formulas, chained comparisons, all sort spellings), parenthesised random formulas, simplification redex templates, theories, specifications with every role/direction/name shape, user guides with all entry kinds, and everything tau-star, natural, mu, gamma, completion and the simplifier produce for generated programs (in-process Display and real CLI stdout fed back to `anthem parse`); every accepted text is parsed, printed, re-parsed (equal trees) and printed again (equal text); a case is a distinct printed text whose round trip was checked".into(),
            assumptions: vec!["tree equality is anthem's derived PartialEq".into()],
            floor: cfg.pick(50_000, 300_000),
            floor_counter: "roundtrips_ok".into(),
            known_replayed,
            extra: J::obj(),
        },
    )
}
