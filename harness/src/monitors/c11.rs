//! C11: applicability checks (tightness, regularity, task preconditions) are exact and enforced
//! before any obligation is emitted.
use crate::kit::generate::{ProgOpts, gen_program, gen_regular_rule, gen_rule};
use crate::kit::json::J;
use crate::kit::rng::Rng;
use crate::kit::tasks::*;
use crate::monitors::common::*;
use crate::run::{Config, Outcome, Stats, finish, guarded, parallel, scratch_dir};
use anthem::analyzing::{regularity::Regularity, tightness::Tightness};
use anthem::syntax_tree::asp::mini_gringo as asp;
use either::Either;
use std::collections::{BTreeMap, BTreeSet};
use std::time::{Duration, Instant};

type P = (String, usize);

/// positive predicate dependency graph: head predicate -> predicates occurring unnegated in the body
pub fn ref_is_tight(p: &asp::Program) -> bool {
    let mut edges: BTreeMap<P, BTreeSet<P>> = BTreeMap::new();
    for r in &p.rules {
        let head = match &r.head {
            asp::Head::Basic(a) | asp::Head::Choice(a) => (a.predicate_symbol.clone(), a.terms.len()),
            asp::Head::Falsity => continue,
        };
        for f in &r.body.formulas {
            if let asp::AtomicFormula::Literal(l) = f {
                if l.sign == asp::Sign::NoSign {
                    edges.entry(head.clone()).or_default().insert((l.atom.predicate_symbol.clone(), l.atom.terms.len()));
                }
            }
        }
    }
    !has_cycle(&edges)
}

fn has_cycle(edges: &BTreeMap<P, BTreeSet<P>>) -> bool {
    // colour DFS
    let mut state: BTreeMap<P, u8> = BTreeMap::new();
    fn visit(n: &P, edges: &BTreeMap<P, BTreeSet<P>>, state: &mut BTreeMap<P, u8>) -> bool {
        match state.get(n) {
            Some(1) => return true,
            Some(2) => return false,
            _ => {}
        }
        state.insert(n.clone(), 1);
        if let Some(succ) = edges.get(n) {
            for s in succ {
                if visit(s, edges, state) {
                    return true;
                }
            }
        }
        state.insert(n.clone(), 2);
        false
    }
    let nodes: Vec<P> = edges.keys().cloned().collect();
    for n in nodes {
        if visit(&n, edges, &mut state) {
            return true;
        }
    }
    false
}

/// private recursion as documented: a choice rule with a private head, or a cycle among private
/// predicates through any body occurrence
pub fn ref_private_recursion(p: &asp::Program, privates: &[P]) -> bool {
    let mut edges: BTreeMap<P, BTreeSet<P>> = BTreeMap::new();
    for r in &p.rules {
        let (head, choice) = match &r.head {
            asp::Head::Basic(a) => ((a.predicate_symbol.clone(), a.terms.len()), false),
            asp::Head::Choice(a) => ((a.predicate_symbol.clone(), a.terms.len()), true),
            asp::Head::Falsity => continue,
        };
        if !privates.contains(&head) {
            continue;
        }
        if choice {
            return true;
        }
        for f in &r.body.formulas {
            if let asp::AtomicFormula::Literal(l) = f {
                let q = (l.atom.predicate_symbol.clone(), l.atom.terms.len());
                if privates.contains(&q) {
                    edges.entry(head.clone()).or_default().insert(q);
                }
            }
        }
    }
    has_cycle(&edges)
}

// ----- regularity as documented in the manual (analyze.md)

fn contains_symbolic(t: &asp::Term) -> bool {
    match t {
        asp::Term::PrecomputedTerm(asp::PrecomputedTerm::Numeral(_)) => false,
        asp::Term::PrecomputedTerm(_) => true,
        asp::Term::Variable(_) => false,
        asp::Term::UnaryOperation { arg, .. } => contains_symbolic(arg),
        asp::Term::BinaryOperation { lhs, rhs, .. } => contains_symbolic(lhs) || contains_symbolic(rhs),
    }
}

fn only_add_sub_mul(t: &asp::Term) -> bool {
    match t {
        asp::Term::PrecomputedTerm(_) | asp::Term::Variable(_) => true,
        // unary minus is the subtraction 0 - t
        asp::Term::UnaryOperation { arg, .. } => only_add_sub_mul(arg),
        asp::Term::BinaryOperation { op, lhs, rhs } => matches!(op, asp::BinaryOperator::Add | asp::BinaryOperator::Subtract | asp::BinaryOperator::Multiply) && only_add_sub_mul(lhs) && only_add_sub_mul(rhs),
    }
}

pub fn first_kind(t: &asp::Term) -> bool {
    match t {
        asp::Term::Variable(_) | asp::Term::PrecomputedTerm(_) => true,
        _ => only_add_sub_mul(t) && !contains_symbolic(t),
    }
}

pub fn second_kind(t: &asp::Term) -> bool {
    match t {
        asp::Term::BinaryOperation { op: asp::BinaryOperator::Interval, lhs, rhs } => first_kind(lhs) && first_kind(rhs) && !contains_symbolic(lhs) && !contains_symbolic(rhs),
        _ => false,
    }
}

pub fn ref_rule_regular(r: &asp::Rule) -> bool {
    for f in &r.body.formulas {
        match f {
            asp::AtomicFormula::Literal(l) => {
                if !l.atom.terms.iter().all(first_kind) {
                    return false;
                }
            }
            asp::AtomicFormula::Comparison(c) => {
                let k1 = first_kind(&c.lhs) && first_kind(&c.rhs);
                let k2 = c.relation == asp::Relation::Equal && first_kind(&c.lhs) && second_kind(&c.rhs);
                if !(k1 || k2) {
                    return false;
                }
            }
        }
    }
    match &r.head {
        asp::Head::Falsity => true,
        asp::Head::Basic(a) | asp::Head::Choice(a) => a.terms.iter().all(|t| first_kind(t) || second_kind(t)),
    }
}

fn gen_dependency_program(r: &mut Rng) -> String {
    // predicates with equal names and different arities, cycles through signs and choice heads
    let pool: Vec<(&str, usize)> = vec![("p", 1), ("p", 2), ("q", 1), ("q", 0), ("a", 0), ("b", 0), ("c", 1), ("d", 1), ("e", 2), ("f", 0), ("g", 1), ("h", 3)];
    let n = 2 + r.upto(10);
    let used: Vec<(&str, usize)> = (0..n).map(|_| pool[r.upto(pool.len())]).collect();
    let atom = |p: &(&str, usize)| -> String {
        if p.1 == 0 { p.0.to_string() } else { format!("{}({})", p.0, (0..p.1).map(|_| "X").collect::<Vec<_>>().join(",")) }
    };
    let mut rules = Vec::new();
    let chain = r.chance(1, 3);
    for (i, h) in used.iter().enumerate() {
        let nb = 1 + r.upto(2);
        let mut body = Vec::new();
        for k in 0..nb {
            let target = if chain && k == 0 { &used[(i + 1) % used.len()] } else { &used[r.upto(used.len())] };
            let sign = if chain && k == 0 { if r.chance(1, 6) { ["not ", "not not "][r.upto(2)] } else { "" } } else { ["", "not ", "not not ", ""][r.upto(4)] };
            body.push(format!("{}{}", sign, atom(target)));
        }
        let head = match r.below(6) {
            0 => String::new(),
            1 | 2 => format!("{{{}}}", atom(h)),
            _ => atom(h),
        };
        rules.push(format!("{} :- {}.", head, body.join(", ")));
    }
    rules.join("\n")
}

fn analysis_case(cfg: &Config, tmp: &std::path::Path, idx: u64, r: &mut Rng, st: &mut Stats) {
    let text = match r.below(5) {
        0 | 1 => gen_dependency_program(r),
        2 if r.chance(1, 4) => format!("{}\n{}", crate::kit::generate::gen_ground_cycle(r, &ProgOpts::default()), gen_program(r, &ProgOpts::default())),
        2 => gen_program(r, &ProgOpts::default()),
        3 => {
            let preds: Vec<(String, usize)> = vec![("p".into(), 1), ("q".into(), 2), ("s".into(), 0)];
            (0..(1 + r.upto(2))).map(|_| gen_regular_rule(r, &preds, 4)).collect::<Vec<_>>().join("\n")
        }
        _ => {
            let mut o = ProgOpts::default();
            o.regular = r.chance(1, 2);
            o.safe = false;
            gen_rule(r, &o)
        }
    };
    let Ok(prog) = parse_program(&text) else {
        st.inc("generator_parse_errors");
        return;
    };
    st.inc("programs");
    if idx < 3 {
        st.sample(J::obj().set("program", J::s(&text)).set("tight", J::Bool(ref_is_tight(&prog))).set("regular", J::Bool(prog.rules.iter().all(ref_rule_regular))));
    }
    // tightness
    match guarded(|| prog.is_tight()) {
        Ok(t) => {
            let want = ref_is_tight(&prog);
            st.inc("tightness_comparisons");
            st.inc(if want { "programs_tight" } else { "programs_not_tight" });
            if t != want {
                st.eval(None);
                st.violation(if t { "tightness:cycle-missed" } else { "tightness:spurious-cycle" }, format!("is_tight() = {t}, positive dependency graph acyclic = {want}"), J::obj().set("program", J::s(&text)));
            } else {
                st.eval(Some(&format!("T|{text}")));
            }
        }
        Err(_) => st.inc("lost_to_panic"),
    }
    // regularity
    match guarded(|| prog.is_regular()) {
        Ok(t) => {
            let want = prog.rules.iter().all(ref_rule_regular);
            st.inc("regularity_comparisons");
            st.inc(if want { "programs_regular" } else { "programs_not_regular" });
            if t != want {
                st.eval(None);
                let culprit = prog.rules.iter().find(|r| {
                    let one = asp::Program { rules: vec![(*r).clone()] };
                    guarded(|| one.is_regular()).unwrap_or(false) != ref_rule_regular(r)
                });
                st.violation(
                    if t { "regularity:accepts-irregular" } else { "regularity:rejects-regular" },
                    format!("is_regular() = {t}, documented definition = {want}; rule: {}", culprit.map(|r| r.to_string()).unwrap_or_default()),
                    J::obj().set("program", J::s(&text)),
                );
            } else {
                st.eval(Some(&format!("R|{text}")));
            }
        }
        Err(_) => st.inc("lost_to_panic"),
    }
    if idx % 101 == 0 {
        let f = tmp.join(format!("c11_{idx}.lp"));
        std::fs::write(&f, &text).unwrap();
        for (prop, want) in [("tightness", ref_is_tight(&prog)), ("regularity", prog.rules.iter().all(ref_rule_regular))] {
            if let Ok(out) = run_cli(&cfg.anthem_release(), &["analyze", "--property", prop, f.to_str().unwrap()], None, &[], None) {
                st.inc("cli_runs");
                if out.code != Some(0) || out.stdout.trim() != want.to_string() {
                    st.violation(format!("cli-{prop}"), format!("`anthem analyze --property {prop}` printed `{}`, expected {want}", out.stdout.trim()), J::obj().set("program", J::s(&text)));
                }
            }
        }
        let _ = std::fs::remove_file(&f);
    }
}

fn enforcement_case(cfg: &Config, tmp: &std::path::Path, idx: u64, r: &mut Rng, st: &mut Stats) {
    let (mut t, sig) = gen_external(r, &ExtOpts::default());
    let Either::Left(left) = t.left.clone() else { return };
    let in1 = sig.inputs.iter().find(|(_, a)| *a == 1).map(|(p, _)| p.clone());
    let out1 = sig.outputs.iter().find(|(_, a)| *a == 1).map(|(p, _)| p.clone());
    let mut bypass = false;
    let which_side_right = r.chance(1, 2);
    let add = |side: &mut String, rule: &str| {
        side.push('\n');
        side.push_str(rule);
    };
    let class: &'static str;
    match r.below(10) {
        9 => {
            // a purely positive cycle among private predicates: non-tight, so it is only refused
            // for its private recursion when tightness is bypassed
            class = "private-recursion-positive-cycle-with-bypass";
            bypass = true;
            let rules = match r.below(3) {
                0 => "ppc(X) :- ppc(X), X = 1..2.".to_string(),
                1 => "ppa(X) :- ppb(X), X = 1..2.\nppb(X) :- ppa(X), X = 1..2.".to_string(),
                _ => "ppr :- ppr.".to_string(),
            };
            if which_side_right { add(&mut t.right, &rules) } else { t.left = Either::Left(format!("{left}\n{rules}")) }
        }
        0 => {
            // non-tight program without bypass: positive cycle through a long chain, a choice head
            class = "non-tight-program";
            let rules = match r.below(4) {
                0 => "cyc(X) :- cyc(X), X = 1..2.".to_string(),
                1 => "cya(X) :- cyb(X), X = 1..2.\ncyb(X) :- cyc(X), X = 1..2.\ncyc(X) :- not not cya(X), cya(X+1), X = 1..2.".to_string(),
                2 => match &out1 {
                    Some(o) => format!("{{{o}(X)}} :- {o}(X)."),
                    None => "cyc :- cyc.".into(),
                },
                _ => "cyd(X,Y) :- cyd(Y,X), X = 1..2, Y = 1..2.".to_string(),
            };
            if which_side_right { add(&mut t.right, &rules) } else { t.left = Either::Left(format!("{left}\n{rules}")) }
        }
        1 => {
            class = "private-recursion-negative-cycle";
            bypass = r.chance(1, 2);
            let rules = match r.below(3) {
                0 => "prv(X) :- X = 1..2, not prv(X).".to_string(),
                1 => "pra(X) :- X = 1..2, not prb(X).\nprb(X) :- X = 1..2, not not pra(X).".to_string(),
                _ => "pra(X) :- X = 1..2, not prb(X,X).\nprb(X,Y) :- X = 1..2, Y = 1..2, not prc(X).\nprc(X) :- X = 1..2, not pra(X).".to_string(),
            };
            if which_side_right { add(&mut t.right, &rules) } else { t.left = Either::Left(format!("{left}\n{rules}")) }
        }
        2 => {
            class = "choice-rule-with-private-head";
            let rules = "{prch(X)} :- X = 1..2.";
            if which_side_right { add(&mut t.right, rules) } else { t.left = Either::Left(format!("{left}\n{rules}")) }
        }
        3 => {
            let Some(i) = in1 else { return };
            class = "input-predicate-in-rule-head";
            let rules = match r.below(3) {
                0 => format!("{i}(1)."),
                1 => format!("{{{i}(X)}} :- X = 1..2."),
                _ => format!("{i}(X) :- X = 1..2, not {i}(X+1)."),
            };
            bypass = r.chance(1, 2);
            if which_side_right { add(&mut t.right, &rules) } else { t.left = Either::Left(format!("{left}\n{rules}")) }
        }
        4 => {
            let Some((p, a)) = sig.inputs.first().cloned() else { return };
            class = "input-output-overlap";
            t.ug.push_str(&format!("\noutput: {p}/{a}."));
        }
        5 => {
            let Some(o) = out1 else { return };
            class = "user-guide-assumption-with-output-predicate";
            t.ug.push_str(&format!("\nassumption: forall X ({o}(X) -> X != 7)."));
        }
        6 => {
            class = "user-guide-assumption-with-private-predicate";
            if r.chance(1, 2) {
                t.ug.push_str("\nassumption: forall X (notdeclared(X) -> X != 7).");
            } else {
                // a private predicate that one of the programs really has
                let rules = "prq(X) :- X = 1..2.";
                if which_side_right { add(&mut t.right, rules) } else { t.left = Either::Left(format!("{left}\n{rules}")) }
                t.ug.push_str("\nassumption: forall X (prq(X) -> X != 7).");
            }
        }
        7 => {
            let Some(o) = out1 else { return };
            class = "specification-assumption-with-output-predicate";
            t.left = Either::Right(format!("assumption: forall X ({o}(X) -> X != 7).\nspec: forall X ({o}(X) -> X = X)."));
        }
        _ => {
            class = "placeholder-with-two-sorts";
            let (a, b) = [("integer", "general"), ("general", "symbol"), ("symbol", "integer")][r.upto(3)];
            t.ug.push_str(&format!("\ninput: dupn -> {a}.\ninput: dupn -> {b}."));
        }
    }
    let Ok(parsed) = parse_ext(&t) else {
        st.inc("enforcement_texts_not_parsed");
        return;
    };
    // the monitor's own confirmation that the violated precondition really applies
    let pubs: Vec<P> = sig.inputs.iter().chain(sig.outputs.iter()).cloned().collect();
    let side_prog = |right: bool| -> Option<&asp::Program> { if right { Some(&parsed.right) } else { parsed.left.as_ref().left() } };
    let confirmed = match class {
        "non-tight-program" => [true, false].iter().any(|s| side_prog(*s).map(|p| !ref_is_tight(p)).unwrap_or(false)),
        "private-recursion-negative-cycle" | "choice-rule-with-private-head" | "private-recursion-positive-cycle-with-bypass" => [true, false].iter().any(|s| {
            side_prog(*s)
                .map(|p| {
                    let privs: Vec<P> = program_preds(p).into_iter().filter(|q| !pubs.contains(q)).collect();
                    ref_private_recursion(p, &privs)
                })
                .unwrap_or(false)
        }),
        _ => true,
    };
    if !confirmed {
        st.inc("enforcement_cases_not_confirmed");
        return;
    }
    st.inc("enforcement_cases");
    st.inc(&format!("enforcement_{class}"));
    let flags = Flags::random(r);
    let origin = crate::monitors::c09::origin_ext(&t, flags).set("violated_precondition", J::s(class)).set("bypass_tightness", J::Bool(bypass));
    if idx < 2 {
        st.sample(origin.clone());
    }
    match build_external(&parsed, bypass, flags) {
        Built::Refused(_) => {
            st.inc("refusals_observed");
            st.eval(Some(&format!("{class}|{}", origin.compact())));
        }
        Built::Ok { problems, .. } => {
            st.eval(None);
            st.violation(format!("precondition-not-enforced:{class}"), format!("a task violating `{class}` yielded {} problems", problems.len()), origin.clone());
        }
        Built::Panic(p) => {
            st.eval(None);
            st.violation(format!("precondition-panic:{class}"), format!("a task violating `{class}` made anthem panic: {p}"), origin.clone());
        }
    }
    if idx % 13 == 0 {
        let d = tmp.join(format!("e{idx}"));
        let out = d.join("out");
        std::fs::create_dir_all(&out).unwrap();
        let mut files: Vec<String> = Vec::new();
        match &t.left {
            Either::Left(p) => {
                std::fs::write(d.join("a.1.lp"), p).unwrap();
                files.push("a.1.lp".into());
            }
            Either::Right(s) => {
                std::fs::write(d.join("a.spec"), s).unwrap();
                files.push("a.spec".into());
            }
        }
        std::fs::write(d.join("a.2.lp"), &t.right).unwrap();
        std::fs::write(d.join("a.ug"), &t.ug).unwrap();
        files.push("a.2.lp".into());
        files.push("a.ug".into());
        let mut args: Vec<String> = vec!["verify".into(), "--equivalence".into(), "external".into(), "--no-proof-search".into(), "--save-problems".into(), out.to_str().unwrap().into()];
        if bypass {
            args.push("--bypass-tightness".into());
        }
        args.extend(flags.cli_args());
        for f in &files {
            args.push(d.join(f).to_str().unwrap().into());
        }
        let argv: Vec<&str> = args.iter().map(|s| s.as_str()).collect();
        if let Ok(o) = run_cli(&cfg.anthem_release(), &argv, None, &[], None) {
            st.inc("cli_enforcement_runs");
            let n_files = std::fs::read_dir(&out).map(|d| d.count()).unwrap_or(0);
            if o.code == Some(0) || o.code.is_none() || n_files != 0 || o.stderr.contains("panicked") || o.stderr.trim().is_empty() {
                st.violation(
                    format!("cli-precondition-not-enforced:{class}"),
                    format!("CLI: exit {:?}, {} files in the --save-problems directory for a task violating `{class}`", o.code, n_files),
                    origin.clone().set("stderr", J::s(o.stderr)),
                );
            }
        }
        let _ = std::fs::remove_dir_all(&d);
    }
}

pub fn run(cfg: &Config) -> i32 {
    let started = Instant::now();
    require_binaries(cfg);
    let tmp = scratch_dir(cfg, "c11");
    let budget = Duration::from_secs_f64(cfg.pick(25.0, 240.0) * cfg.scale);
    let mut stats = parallel(cfg, "analysis", cfg.scaled(cfg.pick(60_000, 5_000_000)), budget, |idx, r, st| analysis_case(cfg, &tmp, idx, r, st));
    let s2 = parallel(cfg, "enforcement", cfg.scaled(cfg.pick(12_000, 1_000_000)), budget, |idx, r, st| enforcement_case(cfg, &tmp, idx, r, st));
    stats.merge(s2);
    let _ = std::fs::remove_dir_all(&tmp);
    finish(
        cfg,
        started,
        Outcome {
            stats,
            level: "exploration",
            rule: "(a) generated programs (dependency chains up to 12 predicates, cycles through single/double negation and choice heads, equal names at different arities; regular-biased and arbitrary rules): is_tight()/is_regular() and the CLI compared in both directions with the monitor's own cycle detection on the positive dependency graph and its own implementation of the manual's regularity definition; (b) accepted external tasks into which exactly one precondition violation is injected (9 classes, either side, with and without --bypass-tightness): the real task must be refused in-process and, on a sample, the CLI must exit non-zero with a message and leave the --save-problems directory empty; a case is a distinct program / violating task".into(),
            assumptions: vec!["unary minus -t is read as the subtraction 0 - t in the regularity definition (the manual is silent; tau_star.rs documents the same reading)".into()],
            floor: cfg.pick(40_000, 200_000),
            floor_counter: "tightness_comparisons".into(),
            known_replayed: vec![],
            extra: J::obj(),
        },
    )
}
