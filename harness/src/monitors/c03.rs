//! C03: strong-equivalence obligations are refuted exactly by HT-distinguishing pairs.
use crate::kit::aspref::{Ref, RefStats, fallback_values, subset};
use crate::kit::eval::{Assign, Consts, Tv};
use crate::kit::generate::{default_pool, gen_ht, gen_pair_any, small_pool};
use crate::kit::json::J;
use crate::kit::rng::Rng;
use crate::kit::tasks::*;
use crate::monitors::c01::div_conv;
use crate::monitors::c05::ht_as_classical;
use crate::monitors::common::*;
use crate::monitors::sem::family_refutes;
use crate::run::{Config, Outcome, Stats, finish, parallel};
use std::collections::BTreeMap;
use std::time::{Duration, Instant};

fn case(cfg: &Config, idx: u64, r: &mut Rng, st: &mut Stats) {
    // hostile names: predicates named like h-/t-copies; hostile symbols: symbolic constants named
    // like predicates (renamed in the problems) and like the renamed constants
    let so = StrongOpts { hostile_names: r.chance(1, 3), hostile_symbols: r.chance(1, 6), ..Default::default() };
    let (l, rt) = gen_strong_with(r, so);
    let (Ok(lp), Ok(rp)) = (parse_program(&l), parse_program(&rt)) else {
        st.inc("generator_parse_errors");
        return;
    };
    let mut preds = program_preds(&lp);
    for p in program_preds(&rp) {
        if !preds.contains(&p) {
            preds.push(p);
        }
    }
    let mu = r.chance(1, 2);
    // one or two flag combinations per pair
    let flag_sets: Vec<Flags> = (0..cfg.pick(2, 3)).map(|_| Flags::random(r)).collect();
    let mut built: Vec<(Flags, Vec<ProblemData>)> = Vec::new();
    let mut symbols_identified = false;
    for flags in flag_sets {
        match build_strong(&lp, &rp, mu, flags) {
            Built::Ok { problems, .. } => {
                if problems.iter().any(|p| p.symbol_map.iter().any(|(c, n)| c != n)) {
                    st.inc("tasks_with_renamed_symbolic_constants");
                }
                if problems.iter().any(|p| p.identifies_symbols()) {
                    symbols_identified = true;
                }
                // constants renamed for TPTP's sake are read as the constants they stand for
                built.push((flags, problems.iter().map(|p| p.with_original_symbols()).collect()))
            }
            Built::Refused(e) => {
                st.violation("strong-task-refused", format!("strong equivalence task refused: {e}"), J::obj().set("left", J::s(&l)).set("right", J::s(&rt)));
                return;
            }
            Built::Panic(_) => {
                st.inc("lost_to_panic");
                return;
            }
        }
    }
    st.inc("program_pairs");
    if idx < 3 {
        st.sample(J::obj().set("left", J::s(&l)).set("right", J::s(&rt)).set("mu", J::Bool(mu)).set("flags", J::s(built[0].0.tag())).set("problems", J::Arr(built[0].1.iter().map(|p| J::s(&p.name)).collect())));
    }
    let ph = BTreeMap::new();
    let consts = Consts::new();
    let assign = Assign::new();
    let pool = if r.chance(1, 2) { small_pool() } else { default_pool() };
    for k in 0..cfg.pick(10, 16) {
        let (h, t) = if k % 5 == 4 { gen_pair_any(r, &preds, &pool) } else { gen_ht(r, &preds, &pool, if k % 5 == 3 { 4 } else { 0 }) };
        let is_sub = subset(&h, &t);
        if !is_sub {
            st.inc("interpretations_h_not_subset_t");
        }
        let rs = RefStats::default();
        let re = Ref { placeholders: &ph, div: div_conv(), stats: &rs };
        let fbl = fallback_values(&lp, &[&h, &t], &[]);
        let fbr = fallback_values(&rp, &[&h, &t], &[]);
        let (sat_l, sat_r) = if is_sub { (re.ht_sat_program(&lp, &h, &t, &fbl), re.ht_sat_program(&rp, &h, &t, &fbr)) } else { (Tv::F, Tv::F) };
        let j = ht_as_classical(&h, &t);
        for (flags, problems) in &built {
            for (dir, prefix, a, b) in [(Dir::Forward, "forward", sat_l, sat_r), (Dir::Backward, "backward", sat_r, sat_l)] {
                if flags.direction != Dir::Universal && flags.direction != dir {
                    // that direction must not have been emitted at all
                    if problems.iter().any(|p| p.name.starts_with(prefix)) {
                        st.violation("unrequested-direction-emitted", format!("{prefix} problems emitted although --direction {}", flags.direction.cli()), J::obj().set("left", J::s(&l)).set("right", J::s(&rt)).set("flags", J::s(flags.tag())));
                    }
                    continue;
                }
                let expected = if !is_sub { Tv::F } else { a.and(b.not()) };
                let (observed, which) = family_refutes(problems, prefix, &j, &consts, &assign);
                match (observed, expected) {
                    (Tv::U, _) | (_, Tv::U) => st.inc("unknown"),
                    (x, y) if x == y => {
                        st.inc("definite_comparisons");
                        if x == Tv::T {
                            st.inc("agree_refuted_and_distinguishing");
                        }
                        st.eval(Some(&format!("{l}|{rt}|{}|{prefix}|{}|{}", flags.tag(), interp_json(&h).compact(), interp_json(&t).compact())));
                    }
                    (x, y) => {
                        st.inc("definite_comparisons");
                        st.eval(None);
                        st.violation(
                            format!("{prefix}-refutation-mismatch{}", if symbols_identified { ":symbolic-constants-identified-by-renaming" } else { "" }),
                            format!("{prefix}: problems refuted = {x:?} (by {which:?}), HT pair distinguishes = {y:?}"),
                            J::obj()
                                .set("left", J::s(&l))
                                .set("right", J::s(&rt))
                                .set("mu", J::Bool(mu))
                                .set("flags", J::s(flags.tag()))
                                .set("H", interp_json(&h))
                                .set("T", interp_json(&t))
                                .set("h_subset_t", J::Bool(is_sub))
                                .set("left_satisfied", J::s(format!("{sat_l:?}")))
                                .set("right_satisfied", J::s(format!("{sat_r:?}"))),
                        );
                    }
                }
            }
        }
    }
}

pub fn run(cfg: &Config) -> i32 {
    let started = Instant::now();
    let budget = Duration::from_secs_f64(cfg.pick(50.0, 540.0) * cfg.scale);
    let stats = parallel(cfg, "main", cfg.scaled(cfg.pick(5000, 2_000_000)), budget, |idx, r, st| case(cfg, idx, r, st));
    finish(
        cfg,
        started,
        Outcome {
            stats,
            level: "exploration",
            rule: "pairs (program, rewrite or mutant of it or independent program) x {tau-star, mu} x random flag combinations x pairs (H,T) incl. H not a subset of T and co-finite extents; the classical interpretation hp -> H(p), tp -> T(p) is evaluated on the problems returned by the real StrongEquivalenceTask::decompose and compared with the ground HT semantics of the two programs; a case is one definite comparison per (pair, flags, direction, H, T)".into(),
            assumptions: vec!["oracle kit as in C01".into(), "h-/t-copies are named by prefixing h/t as documented".into()],
            floor: cfg.pick(20_000, 150_000),
            floor_counter: "definite_comparisons".into(),
            known_replayed: vec![],
            extra: J::obj(),
        },
    )
}
