//! C10: success is reported iff every problem is proven, under any prover schedule / fault.
//! The real `anthem verify` binary runs against a stand-in `vampire` (bin/fake_vampire) that
//! answers according to a plan and records every invocation; an offline checker compares the
//! event log, anthem's stdout and the saved problem files.
use crate::kit::generate::{ProgOpts, gen_program};
use crate::kit::json::J;
use crate::kit::rng::Rng;
use crate::kit::tasks::*;
use crate::monitors::common::*;
use crate::run::{Config, Outcome, Stats, finish, parallel, scratch_dir};
use std::collections::{BTreeMap, BTreeSet};
use std::path::Path;
use std::time::{Duration, Instant};

fn fnv_bytes(b: &[u8]) -> u64 {
    let mut h: u64 = 0xcbf29ce484222325;
    for x in b {
        h ^= *x as u64;
        h = h.wrapping_mul(0x100000001b3);
    }
    h
}

#[derive(Clone, Copy, PartialEq, Eq, Debug)]
enum Expect {
    Theorem,
    NotTheorem,
    DontCare,
}

/// (outcome word for the plan, expected contribution to the verdict, status word anthem must print)
const OUTCOMES: &[(&str, Expect, Option<&str>)] = &[
    ("Theorem", Expect::Theorem, Some("Theorem")),
    ("CounterSatisfiable", Expect::NotTheorem, Some("CounterSatisfiable")),
    ("ContradictoryAxioms", Expect::NotTheorem, Some("ContradictoryAxioms")),
    ("Timeout", Expect::NotTheorem, Some("Timeout")),
    ("MemoryOut", Expect::NotTheorem, Some("MemoryOut")),
    ("GaveUp", Expect::NotTheorem, Some("GaveUp")),
    ("Error", Expect::NotTheorem, Some("Error")),
    ("Satisfiable", Expect::NotTheorem, None),
    ("Theorems", Expect::NotTheorem, None),
    ("theorem", Expect::NotTheorem, None),
    ("Theorem2", Expect::NotTheorem, None),
    ("Theorem_Unproven", Expect::NotTheorem, None),
    ("NoTheorem", Expect::NotTheorem, None),
    ("CounterTheorem", Expect::NotTheorem, None),
    ("nostatus", Expect::NotTheorem, None),
    ("nonutf8", Expect::NotTheorem, None),
    ("nonzero_exit", Expect::NotTheorem, None),
    ("kill", Expect::NotTheorem, None),
    ("theorem_nonutf8", Expect::DontCare, None),
    ("theorem_then_crash", Expect::DontCare, None),
    ("two_lines", Expect::DontCare, None),
];

struct LogRec {
    t_start: u128,
    t_end: u128,
    hash: u64,
    outcome: String,
    args: Vec<String>,
}

fn read_log(p: &Path) -> Vec<LogRec> {
    let mut v = Vec::new();
    if let Ok(s) = std::fs::read_to_string(p) {
        for l in s.lines() {
            let f: Vec<&str> = l.split_whitespace().collect();
            if f.len() >= 5 {
                v.push(LogRec { t_start: f[1].parse().unwrap_or(0), t_end: f[2].parse().unwrap_or(0), hash: f[3].parse().unwrap_or(0), outcome: f[4].to_string(), args: f[5..].iter().map(|s| s.to_string()).collect() });
            }
        }
    }
    v
}

fn max_overlap(recs: &[LogRec]) -> usize {
    let mut ev: Vec<(u128, i32)> = Vec::new();
    for r in recs {
        ev.push((r.t_start, 1));
        ev.push((r.t_end, -1));
    }
    ev.sort_by(|a, b| a.0.cmp(&b.0).then(a.1.cmp(&b.1)));
    let (mut cur, mut mx) = (0i32, 0i32);
    for (_, d) in ev {
        cur += d;
        mx = mx.max(cur);
    }
    mx as usize
}

fn case(cfg: &Config, tmp: &Path, fakebin: &Path, idx: u64, r: &mut Rng, st: &mut Stats) {
    let d = tmp.join(format!("t{idx}"));
    let dry = d.join("dry");
    let out = d.join("out");
    std::fs::create_dir_all(&dry).unwrap();
    std::fs::create_dir_all(&out).unwrap();
    // a task with several problems
    let mut o = ProgOpts::default();
    o.max_rules = 5;
    o.term_depth = 1;
    o.preds = vec![("p".into(), 1), ("q".into(), 1), ("s".into(), 0)];
    let l = gen_program(r, &o);
    let mut rt = if r.chance(1, 2) { mutate_program(r, &l) } else { gen_program(r, &o) };
    let empty_side = r.chance(1, 20);
    if empty_side {
        // an empty program: one direction has nothing to prove
        rt = String::new();
    }
    std::fs::write(d.join("a.1.lp"), &l).unwrap();
    std::fs::write(d.join("a.2.lp"), &rt).unwrap();
    let mut flags = Flags { sequential: r.chance(1, 2), direction: [Dir::Universal, Dir::Universal, Dir::Forward, Dir::Backward][r.upto(4)], simplify: r.chance(1, 2), break_equivalences: r.chance(1, 2) };
    if empty_side && r.chance(2, 3) {
        flags.direction = Dir::Forward;
    }
    let mut base: Vec<String> = vec!["verify".into(), "--equivalence".into(), "strong".into(), "--no-timing".into()];
    base.extend(flags.cli_args());
    let files = ["a.1.lp".to_string(), "a.2.lp".to_string()];
    // 1. dry run
    let mut a1 = base.clone();
    a1.extend(["--no-proof-search".to_string(), "--save-problems".to_string(), dry.to_str().unwrap().to_string()]);
    a1.extend(files.iter().cloned());
    let argv: Vec<&str> = a1.iter().map(|s| s.as_str()).collect();
    let Ok(dr) = run_cli(&cfg.anthem_release(), &argv, None, &[], Some(&d)) else { return };
    if dr.code != Some(0) {
        st.inc("dry_run_failed");
        let _ = std::fs::remove_dir_all(&d);
        return;
    }
    let mut problems: BTreeMap<String, Vec<u8>> = BTreeMap::new();
    for e in std::fs::read_dir(&dry).unwrap().flatten() {
        problems.insert(e.file_name().to_string_lossy().trim_end_matches(".p").to_string(), std::fs::read(e.path()).unwrap());
    }
    // (a task without problems is kept: nothing to prove, success for every number of instances)
    // 2. plan
    let mode = r.below(10); // 0: all theorem, 1: missing executable, 2: early close, else mixed
    let mut plan_by_hash: BTreeMap<u64, (&'static str, Expect, Option<&'static str>, u64)> = BTreeMap::new();
    for (_, content) in &problems {
        let h = fnv_bytes(content);
        let pick = if mode == 0 || (mode >= 6 && r.chance(4, 5)) { OUTCOMES[0] } else { OUTCOMES[r.upto(OUTCOMES.len())] };
        let delay = r.below(70);
        plan_by_hash.entry(h).or_insert((pick.0, pick.1, pick.2, delay));
    }
    let plan_text: String = plan_by_hash.iter().map(|(h, (w, _, _, dl))| format!("{h} {w} {dl}\n")).collect();
    let plan_file = d.join("plan.txt");
    let log_file = d.join("events.log");
    std::fs::write(&plan_file, &plan_text).unwrap();
    // 3. the real run
    let n = 1 + r.upto(8);
    let mut a2 = base.clone();
    a2.extend(["-n".to_string(), n.to_string(), "--save-problems".to_string(), out.to_str().unwrap().to_string()]);
    let mut slow_plan = false;
    match r.below(40) {
        0..=9 => a2.extend(["-m".to_string(), (1 + r.upto(3)).to_string(), "-t".to_string(), (1 + r.upto(100)).to_string()]),
        10..=14 => a2.extend(["--time-limit".to_string(), "0".to_string()]),
        15 => {
            // a short time limit and one prover that overruns it considerably
            a2.extend(["-t".to_string(), "1".to_string()]);
            slow_plan = true;
        }
        _ => {}
    }
    if slow_plan {
        if let Some((_, e)) = plan_by_hash.iter_mut().next() {
            e.3 = 2600;
        }
        let plan_text2: String = plan_by_hash.iter().map(|(h, (w, _, _, dl))| format!("{h} {w} {dl}\n")).collect();
        std::fs::write(&plan_file, &plan_text2).unwrap();
        st.inc("runs_with_a_prover_overrunning_the_time_limit");
    }
    a2.extend(files.iter().cloned());
    let argv: Vec<&str> = a2.iter().map(|s| s.as_str()).collect();
    let sys_path = "/usr/bin:/bin";
    let path = if mode == 1 { sys_path.to_string() } else { format!("{}:{}", fakebin.display(), sys_path) };
    let mut env: Vec<(&str, &str)> = vec![("PATH", path.as_str()), ("AVM_PLAN", plan_file.to_str().unwrap()), ("AVM_LOG", log_file.to_str().unwrap())];
    if mode == 2 {
        env.push(("AVM_EARLY_CLOSE", "1"));
    }
    let Ok(run) = run_cli(&cfg.anthem_release(), &argv, None, &env, Some(&d)) else { return };
    st.inc("anthem_runs");
    st.inc(&format!("runs_with_{n}_instances"));
    let recs = read_log(&log_file);
    st.add("prover_invocations", recs.len() as u64);
    let origin = J::obj()
        .set("left", J::s(&l))
        .set("right", J::s(&rt))
        .set("args", J::strs(&a2))
        .set("mode", J::s(match mode { 0 => "all-theorem", 1 => "missing-executable", 2 => "prover-closes-stdin-early", _ => "mixed" }))
        .set("plan", J::s(&plan_text))
        .set("stdout_tail", J::s(run.stdout.lines().rev().take(6).collect::<Vec<_>>().join(" | ")));
    if idx < 3 {
        st.sample(origin.clone().set("problems", J::Arr(problems.keys().map(J::s).collect())));
    }
    let success = run.stdout.contains("> Success!");
    let failure = run.stdout.contains("> Failure!");
    if success == failure || run.code != Some(0) {
        st.eval(None);
        st.violation("no-single-verdict", format!("anthem printed success={success} failure={failure}, exit {:?}", run.code), origin.clone());
        let _ = std::fs::remove_dir_all(&d);
        return;
    }
    // saved files of the real run are those of the dry run
    let mut saved: BTreeMap<String, Vec<u8>> = BTreeMap::new();
    for e in std::fs::read_dir(&out).unwrap().flatten() {
        saved.insert(e.file_name().to_string_lossy().trim_end_matches(".p").to_string(), std::fs::read(e.path()).unwrap());
    }
    if saved != problems {
        st.eval(None);
        st.violation("saved-problems-differ-between-runs", "the problems saved with proof search differ from those of the --no-proof-search run", origin.clone());
    }
    if problems.is_empty() {
        st.inc("runs_with_zero_problems");
        if !success || !recs.is_empty() {
            st.eval(None);
            st.violation("failure-although-nothing-to-prove", format!("the task has no problem, anthem reported failure or started a prover ({} prover runs)", recs.len()), origin.clone());
        } else {
            st.eval(Some(&origin.compact()));
        }
        let _ = std::fs::remove_dir_all(&d);
        return;
    }
    match mode {
        1 | 2 => {
            st.inc(if mode == 1 { "runs_missing_executable" } else { "runs_early_close" });
            if success {
                st.eval(None);
                st.violation(if mode == 1 { "success-without-prover" } else { "success-with-dead-prover" }, "anthem reported success although no prover run could deliver a status", origin.clone());
            } else {
                st.eval(Some(&origin.compact()));
            }
            let _ = std::fs::remove_dir_all(&d);
            return;
        }
        _ => {}
    }
    // exactly once, byte-identical
    let mut want: Vec<u64> = problems.values().map(|c| fnv_bytes(c)).collect();
    let mut got: Vec<u64> = Vec::new();
    let stdin_dir = format!("{}.d", log_file.display());
    if let Ok(rd) = std::fs::read_dir(&stdin_dir) {
        for e in rd.flatten() {
            got.push(fnv_bytes(&std::fs::read(e.path()).unwrap_or_default()));
        }
    }
    want.sort();
    got.sort();
    st.inc("exactly_once_checks");
    if want != got || recs.len() != problems.len() {
        st.eval(None);
        let class = if got.len() < want.len() { "problem-lost" } else if got.len() > want.len() { "problem-duplicated" } else { "problem-altered" };
        st.violation(class, format!("{} problems were emitted but the prover received {} inputs ({} log records); multisets of contents differ", want.len(), got.len(), recs.len()), origin.clone());
        let _ = std::fs::remove_dir_all(&d);
        return;
    }
    // prover arguments
    for rec in &recs {
        if !rec.args.iter().any(|a| a == "--mode") {
            st.violation("prover-arguments", format!("prover invoked with {:?}", rec.args), origin.clone());
            break;
        }
    }
    // verdict
    let mut all_theorem = true;
    let mut dont_care = false;
    for rec in &recs {
        match plan_by_hash.get(&rec.hash) {
            Some((_, Expect::Theorem, _, _)) => {}
            Some((_, Expect::NotTheorem, _, _)) => all_theorem = false,
            Some((_, Expect::DontCare, _, _)) => dont_care = true,
            None => {
                st.violation("problem-altered", "the prover received an input that is none of the saved problems", origin.clone());
            }
        }
        if rec.outcome != plan_by_hash.get(&rec.hash).map(|p| p.0).unwrap_or("") {
            st.inc("harness_plan_mismatch");
        }
    }
    st.inc("verdict_checks");
    st.inc(if success { "runs_reporting_success" } else { "runs_reporting_failure" });
    if !(dont_care && all_theorem) {
        st.inc("verdict_checks_with_single_expected_answer");
        if success != all_theorem {
            st.eval(None);
            st.violation(
                if success { "success-although-not-all-theorem" } else { "failure-although-all-theorem" },
                format!("anthem reported {} but every-run-delivered-Theorem = {all_theorem}", if success { "success" } else { "failure" }),
                origin.clone(),
            );
            let _ = std::fs::remove_dir_all(&d);
            return;
        }
    }
    // per-problem status lines
    for (name, content) in &problems {
        if let Some((_, _, Some(w), _)) = plan_by_hash.get(&fnv_bytes(content)) {
            // two problems may share their content (and therefore the plan entry)
            let needle = format!("> Proving {name} ended with a SZS status\nStatus: {w}\n");
            st.inc("status_line_checks");
            if !run.stdout.contains(&needle) {
                st.eval(None);
                st.violation("status-line-differs", format!("stdout lacks the status `{w}` for problem {name}"), origin.clone());
                break;
            }
        }
    }
    // schedule observations
    let ov = max_overlap(&recs);
    st.max("max_overlap_observed", ov as u64);
    if ov > n {
        st.eval(None);
        st.violation("too-many-provers", format!("{ov} provers were alive at once with -n {n}"), origin.clone());
    }
    if n >= 2 && recs.len() >= 2 {
        st.inc("runs_with_several_instances");
        if ov >= 2 {
            st.inc("runs_with_observed_overlap");
        }
        // completion order relative to submission order
        let submitted: Vec<&str> = run.stdout.lines().filter_map(|l| l.strip_prefix("> Proving ").and_then(|x| x.strip_suffix("..."))).collect();
        let completed: Vec<&str> = run.stdout.lines().filter_map(|l| l.strip_prefix("> Proving ").and_then(|x| x.split(" ended with").next().filter(|_| l.contains(" ended with")))).collect();
        let perm: Vec<String> = completed.iter().map(|c| submitted.iter().position(|s| s == c).map(|i| i.to_string()).unwrap_or("?".into())).collect();
        let in_order = perm.iter().enumerate().all(|(i, p)| *p == i.to_string());
        if !in_order {
            st.inc("runs_completing_out_of_submission_order");
        }
        st.eval(Some(&format!("order:{}:{}", n, perm.join(","))));
    } else {
        st.eval(Some(&origin.compact()));
    }
    let _ = std::fs::remove_dir_all(&d);
}

/// prove_all under Miri with a mock prover (data races, deadlocks, leaks in the pool / channel)
fn miri_run(cfg: &Config, st: &mut Stats) -> Result<(), String> {
    let dir = cfg.verif_dir.join("miri_prover");
    let seeds = cfg.pick("0..6", "0..32");
    let started = Instant::now();
    let out = std::process::Command::new("cargo")
        .args(["+nightly", "miri", "run", "--offline", "--quiet"])
        .current_dir(&dir)
        .env("MIRIFLAGS", format!("-Zmiri-many-seeds={seeds} -Zmiri-disable-isolation"))
        .env("CARGO_TARGET_DIR", cfg.verif_dir.join(".build/miri"))
        .env("CARGO_NET_OFFLINE", "true")
        .output()
        .map_err(|e| format!("cannot run cargo miri: {e}"))?;
    let stdout = String::from_utf8_lossy(&out.stdout).to_string();
    let stderr = String::from_utf8_lossy(&out.stderr).to_string();
    st.add("miri_wall_ms", started.elapsed().as_millis() as u64);
    let runs = stdout.lines().filter(|l| l.starts_with("MIRI-OK")).count() as u64;
    let orders: BTreeSet<&str> = stdout.lines().filter_map(|l| l.strip_prefix("MIRI-OK order=")).collect();
    st.add("miri_seeds_completed", runs);
    st.add("miri_distinct_completion_orders", orders.len() as u64);
    if !out.status.success() || stderr.contains("Undefined Behavior") || stderr.contains("data race") || stderr.contains("deadlock") || stderr.contains("memory leaked") {
        if stderr.contains("Undefined Behavior") || stderr.contains("data race") || stderr.contains("deadlock") || stderr.contains("leaked") || stdout.contains("MIRI-VIOLATION") {
            st.violation(
                "miri",
                "Miri reported a problem in Prover::prove_all with a mock prover",
                J::obj().set("stderr", J::s(stderr.lines().take(40).collect::<Vec<_>>().join("\n"))).set("stdout", J::s(stdout.lines().rev().take(10).collect::<Vec<_>>().join("\n"))),
            );
            return Ok(());
        }
        return Err(format!("miri run failed without a diagnosis (harness problem):\n{}", stderr.lines().rev().take(15).collect::<Vec<_>>().join("\n")));
    }
    Ok(())
}

pub fn run(cfg: &Config) -> i32 {
    let started = Instant::now();
    require_binaries(cfg);
    let tmp = scratch_dir(cfg, "c10");
    let fakebin = tmp.join("bin");
    std::fs::create_dir_all(&fakebin).unwrap();
    if std::fs::copy(cfg.fake_vampire(), fakebin.join("vampire")).is_err() {
        eprintln!("[avm] fake_vampire binary missing at {}", cfg.fake_vampire().display());
        return 2;
    }
    if std::process::Command::new("sh").args(["-c", "PATH=/usr/bin:/bin command -v vampire"]).output().map(|o| o.status.success()).unwrap_or(false) {
        eprintln!("[avm] a real vampire is installed in /usr/bin:/bin; the missing-executable fault cannot be produced");
        return 2;
    }
    let budget = Duration::from_secs_f64(cfg.pick(45.0, 420.0) * cfg.scale);
    let mut stats = parallel(cfg, "main", cfg.scaled(cfg.pick(2000, 400_000)), budget, |idx, r, st| case(cfg, &tmp, &fakebin, idx, r, st));
    let _ = std::fs::remove_dir_all(&tmp);
    let mut harness_error = None;
    if std::env::var("AVM_SKIP_MIRI").is_err() {
        if let Err(e) = miri_run(cfg, &mut stats) {
            harness_error = Some(e);
        }
    }
    // the run is inconclusive about schedules if overlap was never observed
    let several = stats.counters.get("runs_with_several_instances").cloned().unwrap_or(0);
    let overlapped = stats.counters.get("runs_with_observed_overlap").cloned().unwrap_or(0);
    let code = finish(
        cfg,
        started,
        Outcome {
            stats,
            level: "fault_enumeration",
            rule: "strong-equivalence tasks with 2-10 problems run through the real `anthem verify` binary with a stand-in vampire first in PATH; every problem is assigned one of 17 planned prover behaviours (7 SZS statuses, unknown/near-miss status words, no status line, non-UTF-8 output, non-zero exit, abort, Theorem followed by a crash or by non-UTF-8 noise, two status lines), plus whole-run faults (missing executable, prover that closes stdin before reading); -n 1..8 instances, random per-problem delays 0-70 ms; the offline checker compares the prover's event log and recorded stdin bytes, anthem's stdout and the saved files (exactly once, byte-identical, verdict, per-problem status, at most n provers alive); distinct cases are distinct (instances, completion order) observations and distinct fault plans; in addition Prover::prove_all runs under Miri with a mock prover over several scheduler seeds".into(),
            assumptions: vec![
                "a run delivered Theorem iff its stdout is valid UTF-8 and the first `SZS status W for` line has W = Theorem".into(),
                "Theorem followed by a crash / mixed with non-UTF-8 bytes / preceded by another status line are don't-care for the verdict (the statement ranks them differently)".into(),
            ],
            floor: cfg.pick(300, 3_000),
            floor_counter: "verdict_checks".into(),
            known_replayed: vec![],
            extra: J::obj(),
        },
    );
    if code == 0 {
        if let Some(e) = harness_error {
            eprintln!("[avm] {e}");
            return 2;
        }
        if several > 20 && overlapped == 0 {
            eprintln!("[avm] no overlapping prover runs were observed although -n >= 2 was used: inconclusive");
            return 2;
        }
    }
    code
}
