//! Driver framework shared by all monitors: seeded parallel case runner, three-valued verdict
//! bookkeeping, evidence files, replay files, known findings.
use crate::kit::json::J;
use crate::kit::rng::{Rng, fnv};
use std::collections::{BTreeMap, BTreeSet};
use std::path::PathBuf;
use std::sync::Mutex;
use std::sync::atomic::{AtomicBool, AtomicU64, Ordering};
use std::time::{Duration, Instant};

#[derive(Clone, Copy, PartialEq, Eq, Debug)]
pub enum Tier {
    Quick,
    Thorough,
}

#[derive(Clone, Debug)]
pub struct Config {
    pub prop: String,
    pub tier: Tier,
    pub seed: u64,
    pub threads: usize,
    pub verif_dir: PathBuf,
    /// directory holding the freshly built anthem binaries (release/anthem, debug/anthem)
    pub anthem_build: PathBuf,
    pub replay: Option<PathBuf>,
    /// multiplies case counts / time budgets (VERIF_SCALE, default 1.0)
    pub scale: f64,
}

impl Config {
    pub fn anthem_release(&self) -> PathBuf {
        self.anthem_build.join("release/anthem")
    }
    pub fn anthem_dev(&self) -> PathBuf {
        self.anthem_build.join("debug/anthem")
    }
    pub fn fake_vampire(&self) -> PathBuf {
        self.verif_dir.join(".build/harness/debug/fake_vampire")
    }
    pub fn pick<T>(&self, quick: T, thorough: T) -> T {
        match self.tier {
            Tier::Quick => quick,
            Tier::Thorough => thorough,
        }
    }
    pub fn scaled(&self, n: u64) -> u64 {
        ((n as f64) * self.scale).max(1.0) as u64
    }
}

#[derive(Clone, Debug)]
pub struct Violation {
    /// root-cause class used to match known findings (narrow, deterministic)
    pub class: String,
    /// one-line human summary
    pub summary: String,
    /// everything needed to reproduce and understand the case
    pub detail: J,
    /// the case that produced it: stream of `parallel` and index within the stream
    pub stream: String,
    pub idx: u64,
}

/// per-thread accumulator, merged at the end
#[derive(Default)]
pub struct Stats {
    pub counters: BTreeMap<String, u64>,
    pub distinct: BTreeSet<u64>,
    pub samples: Vec<J>,
    pub violations: Vec<Violation>,
    pub evaluations: u64,
    /// the case being run (set by `parallel`)
    pub cur_stream: String,
    pub cur_idx: u64,
}

impl Stats {
    pub fn inc(&mut self, k: &str) {
        *self.counters.entry(k.to_string()).or_insert(0) += 1;
    }
    pub fn add(&mut self, k: &str, n: u64) {
        *self.counters.entry(k.to_string()).or_insert(0) += n;
    }
    pub fn max(&mut self, k: &str, n: u64) {
        let e = self.counters.entry(k.to_string()).or_insert(0);
        if n > *e {
            *e = n
        }
    }
    /// count a case as evaluated; `nontrivial_key` identifies it for the distinct count
    pub fn eval(&mut self, nontrivial_key: Option<&str>) {
        self.evaluations += 1;
        if let Some(k) = nontrivial_key {
            self.distinct.insert(fnv(k));
        }
    }
    pub fn sample(&mut self, j: J) {
        if self.samples.len() < 3 {
            self.samples.push(j);
        }
    }
    pub fn violation(&mut self, class: impl Into<String>, summary: impl Into<String>, detail: J) {
        // the cap is per root-cause class, so that a frequent (possibly known) class can never
        // crowd out a different one
        let class = class.into();
        let n = self.violations.iter().filter(|v| v.class == class).count();
        self.add(&format!("violations_seen[{class}]"), 1);
        if n < 25 {
            self.violations.push(Violation { class, summary: summary.into(), detail, stream: self.cur_stream.clone(), idx: self.cur_idx });
        }
    }
    pub fn merge(&mut self, o: Stats) {
        for (k, v) in o.counters {
            if k.starts_with("max_") {
                let e = self.counters.entry(k).or_insert(0);
                if v > *e {
                    *e = v
                }
            } else {
                *self.counters.entry(k).or_insert(0) += v;
            }
        }
        self.distinct.extend(o.distinct);
        for s in o.samples {
            if self.samples.len() < 6 {
                self.samples.push(s)
            }
        }
        self.violations.extend(o.violations);
        self.evaluations += o.evaluations;
    }
}

/// Runs `case(idx, rng, stats)` for idx = 0.. on `cfg.threads` worker threads (64 MB stacks)
/// until `max_cases` cases were started or `budget` elapsed. A panic inside a case is caught,
/// counted as `harness_panics` and reported (it is a harness problem, never a verdict).
pub fn parallel<F>(cfg: &Config, stream: &str, max_cases: u64, budget: Duration, case: F) -> Stats
where
    F: Fn(u64, &mut Rng, &mut Stats) + Sync,
{
    let next = AtomicU64::new(0);
    let stop = AtomicBool::new(false);
    let start = Instant::now();
    let total = Mutex::new(Stats::default());
    let stream_id = fnv(stream) ^ fnv(&cfg.prop);
    if let Some(rp) = &cfg.replay {
        // replay mode: exactly the recorded case of the recorded stream, nothing else
        let mut t = Stats::default();
        let Some((rs, ri)) = replay_case(rp) else { return t };
        if rs != stream {
            return t;
        }
        std::thread::scope(|s| {
            std::thread::Builder::new()
                .stack_size(256 << 20)
                .spawn_scoped(s, || {
                    t.cur_stream = stream.to_string();
                    t.cur_idx = ri;
                    let mut rng = Rng::for_case(cfg.seed, stream_id, ri);
                    let r = std::panic::catch_unwind(std::panic::AssertUnwindSafe(|| case(ri, &mut rng, &mut t)));
                    if r.is_err() {
                        t.inc("harness_panics");
                    }
                })
                .unwrap();
        });
        t.add("replayed_cases", 1);
        return t;
    }
    let finished_workers = AtomicU64::new(0);
    std::thread::scope(|s| {
        // watchdog: a case that calls into anthem in-process and never returns cannot be
        // interrupted; long after the budget the run is abandoned without a verdict
        s.spawn(|| {
            let grace = std::env::var("AVM_WATCHDOG_S").ok().and_then(|x| x.parse().ok()).unwrap_or(300u64);
            let limit = budget.mul_f64(2.0) + Duration::from_secs(grace);
            while finished_workers.load(Ordering::Relaxed) < cfg.threads as u64 {
                std::thread::sleep(Duration::from_millis(200));
                if start.elapsed() > limit {
                    println!(
                        "[avm] {} stream {}: {} worker(s) still inside a case {:.0} s after the start (budget {:.0} s): a call into anthem does not return",
                        cfg.prop,
                        stream,
                        cfg.threads as u64 - finished_workers.load(Ordering::Relaxed),
                        start.elapsed().as_secs_f64(),
                        budget.as_secs_f64()
                    );
                    kill_children();
                    // violations recorded by finished cases are not lost
                    let early = std::mem::take(&mut *EARLY_VIOLATIONS.lock().unwrap());
                    let known = load_known(cfg);
                    let unlisted: Vec<&Violation> = early.iter().filter(|v| !known.iter().any(|k| k.property == cfg.prop && k.status == "open" && k.class == v.class)).collect();
                    if let Some(v) = unlisted.first() {
                        let rdir = cfg.verif_dir.join("replays").join(&cfg.prop);
                        let _ = std::fs::create_dir_all(&rdir);
                        let path = rdir.join(format!("{}-seed{}-abandoned-0.json", tier_name(cfg.tier), cfg.seed));
                        let j = J::obj()
                            .set("property", J::s(&cfg.prop))
                            .set("class", J::s(&v.class))
                            .set("summary", J::s(&v.summary))
                            .set("case", J::obj().set("stream", J::s(&v.stream)).set("index", J::Int(v.idx as i64)).set("seed", J::Int(cfg.seed as i64)).set("tier", J::s(tier_name(cfg.tier))).set("scale", J::s(format!("{}", cfg.scale))))
                            .set("detail", v.detail.clone());
                        let _ = std::fs::write(&path, j.pretty());
                        println!("[avm] {} violation(s) had been recorded before the run was abandoned; first: [{}] {}", unlisted.len(), v.class, v.summary);
                        println!("VIOLATION property={} replay={}", cfg.prop, path.display());
                        std::process::exit(1);
                    }
                    println!("[avm] no verdict from this check (termination is decided by C16 and C18)");
                    std::process::exit(2);
                }
            }
        });
        for _ in 0..cfg.threads {
            std::thread::Builder::new()
                .stack_size(256 << 20)
                .spawn_scoped(s, || {
                    let mut st = Stats::default();
                    let mut mirrored = 0usize;
                    loop {
                        if stop.load(Ordering::Relaxed) {
                            break;
                        }
                        let idx = next.fetch_add(1, Ordering::Relaxed);
                        if idx >= max_cases {
                            break;
                        }
                        if start.elapsed() > budget {
                            stop.store(true, Ordering::Relaxed);
                            st.inc("stopped_by_time_budget");
                            break;
                        }
                        let mut rng = Rng::for_case(cfg.seed, stream_id, idx);
                        st.cur_stream = stream.to_string();
                        st.cur_idx = idx;
                        let r = std::panic::catch_unwind(std::panic::AssertUnwindSafe(|| {
                            case(idx, &mut rng, &mut st);
                        }));
                        if st.violations.len() > mirrored {
                            EARLY_VIOLATIONS.lock().unwrap().extend(st.violations[mirrored..].iter().cloned());
                            mirrored = st.violations.len();
                        }
                        if let Err(e) = r {
                            let msg = e
                                .downcast_ref::<String>()
                                .cloned()
                                .or_else(|| e.downcast_ref::<&str>().map(|s| s.to_string()))
                                .unwrap_or_default();
                            st.inc("harness_panics");
                            if st.counters["harness_panics"] <= 3 {
                                eprintln!("[avm] harness panic in {} stream {} case {}: {}", cfg.prop, stream, idx, msg);
                            }
                        }
                    }
                    total.lock().unwrap().merge(st);
                    finished_workers.fetch_add(1, Ordering::Relaxed);
                })
                .unwrap();
        }
    });
    let mut t = total.into_inner().unwrap();
    t.add(&format!("cases_{stream}"), next.load(Ordering::Relaxed).min(max_cases));
    t
}

/// process ids of the children that are running right now (anthem binaries, stand-in provers);
/// when a run is abandoned they are killed, so that a non-terminating child is not left behind
static CHILDREN: Mutex<BTreeSet<u32>> = Mutex::new(BTreeSet::new());

pub fn child_started(pid: u32) {
    CHILDREN.lock().unwrap().insert(pid);
}

pub fn child_finished(pid: u32) {
    CHILDREN.lock().unwrap().remove(&pid);
}

pub fn kill_children() {
    for pid in CHILDREN.lock().unwrap().iter() {
        let _ = std::process::Command::new("kill").arg("-9").arg(pid.to_string()).status();
    }
}

/// violations of finished cases, mirrored so that the watchdog of `parallel` can still report
/// them when it abandons a run
static EARLY_VIOLATIONS: Mutex<Vec<Violation>> = Mutex::new(Vec::new());

/// (stream, index) recorded in a replay file
pub fn replay_case(p: &std::path::Path) -> Option<(String, u64)> {
    let j = J::parse(&std::fs::read_to_string(p).ok()?).ok()?;
    let c = j.get("case")?;
    Some((c.str("stream")?.to_string(), c.int("index")? as u64))
}

/// (seed, tier, scale) recorded in a replay file
pub fn replay_settings(p: &std::path::Path) -> Option<(u64, Tier, f64)> {
    let j = J::parse(&std::fs::read_to_string(p).ok()?).ok()?;
    let c = j.get("case")?;
    let tier = if c.str("tier") == Some("thorough") { Tier::Thorough } else { Tier::Quick };
    let scale = c.str("scale").and_then(|s| s.parse().ok()).unwrap_or(1.0);
    Some((c.int("seed")? as u64, tier, scale))
}

thread_local! {
    static LAST_PANIC_LOCATION: std::cell::RefCell<Option<String>> = const { std::cell::RefCell::new(None) };
}

/// panic hook that keeps stderr quiet and remembers where the last panic of this thread happened
pub fn install_panic_hook() {
    std::panic::set_hook(Box::new(|info| {
        let loc = info.location().map(|l| format!("{}:{}", l.file(), l.line()));
        LAST_PANIC_LOCATION.with(|c| *c.borrow_mut() = loc);
    }));
}

pub fn last_panic_location() -> Option<String> {
    LAST_PANIC_LOCATION.with(|c| c.borrow().clone())
}

/// Calls anthem code that may panic; a panic is reported to the caller as Err(message) so that
/// the monitor can count the case as "lost to panic" (a C16 matter) instead of dying.
pub fn guarded<T>(f: impl FnOnce() -> T) -> Result<T, String> {
    std::panic::catch_unwind(std::panic::AssertUnwindSafe(f)).map_err(|e| {
        e.downcast_ref::<String>()
            .cloned()
            .or_else(|| e.downcast_ref::<&str>().map(|s| s.to_string()))
            .unwrap_or_else(|| "panic".into())
    })
}

// ------------------------------------------------------------------------------------------
// known findings

#[derive(Clone, Debug)]
pub struct KnownFinding {
    pub property: String,
    pub status: String, // "open" | "fixed"
    pub class: String,
    pub what: String,
    pub witness: J,
    pub commit: Option<String>,
}

pub fn load_known(cfg: &Config) -> Vec<KnownFinding> {
    let p = cfg.verif_dir.join("known_findings.json");
    let Ok(text) = std::fs::read_to_string(&p) else { return vec![] };
    let j = match J::parse(&text) {
        Ok(j) => j,
        Err(e) => {
            eprintln!("[avm] cannot parse known_findings.json: {e}");
            std::process::exit(2);
        }
    };
    j.arr("findings")
        .iter()
        .map(|f| KnownFinding {
            property: f.str("property").unwrap_or("").to_string(),
            status: f.str("status").unwrap_or("open").to_string(),
            class: f.str("class").unwrap_or("").to_string(),
            what: f.str("what").unwrap_or("").to_string(),
            witness: f.get("witness").cloned().unwrap_or(J::Null),
            commit: f.str("commit").map(|s| s.to_string()),
        })
        .collect()
}

// ------------------------------------------------------------------------------------------
// finishing a run

pub struct Outcome {
    pub stats: Stats,
    pub level: &'static str,
    pub rule: String,
    pub assumptions: Vec<String>,
    /// minimum number of definite / non-trivial observations for the run to count as a verdict
    pub floor: u64,
    /// name of the counter compared against `floor`
    pub floor_counter: String,
    /// violations observed while replaying the witnesses of open known findings:
    /// (finding index, still fails?)
    pub known_replayed: Vec<(KnownFinding, bool)>,
    pub extra: J,
}

pub fn finish(cfg: &Config, started: Instant, out: Outcome) -> i32 {
    let known = load_known(cfg);
    let open: Vec<&KnownFinding> = known.iter().filter(|k| k.property == cfg.prop && k.status == "open").collect();
    let mut st = out.stats;
    let all_violations = std::mem::take(&mut st.violations);
    let mut unlisted: Vec<&Violation> = Vec::new();
    let mut listed = 0u64;
    for v in &all_violations {
        if open.iter().any(|k| k.class == v.class) {
            listed += 1;
        } else {
            unlisted.push(v);
        }
    }
    for (k, still) in &out.known_replayed {
        if *still {
            println!("KNOWN-FINDING: property={} {} [{}]", cfg.prop, k.what, k.class);
        } else {
            println!("[avm] note: known finding no longer reproduces: {} [{}]", k.what, k.class);
        }
    }
    if let Some(rp) = &cfg.replay {
        // replay mode: report what the recorded case does now, write nothing
        println!("[avm] replay of {}: {} case(s) re-run", rp.display(), st.counters.get("replayed_cases").cloned().unwrap_or(0));
        for v in &all_violations {
            println!("[avm] violation [{}]{}: {}", v.class, if open.iter().any(|k| k.class == v.class) { " (known finding)" } else { "" }, v.summary);
            println!("{}", v.detail.pretty());
        }
        if st.counters.get("replayed_cases").cloned().unwrap_or(0) == 0 {
            eprintln!("[avm] the replay file names no case of this check (no `case` entry, or a stream this check does not have)");
            return 2;
        }
        if !unlisted.is_empty() {
            println!("VIOLATION property={} replay={}", cfg.prop, rp.display());
            return 1;
        }
        println!("[avm] replay: the recorded case does not violate the property on this tree");
        return 0;
    }
    // replay files
    let rdir = cfg.verif_dir.join("replays").join(&cfg.prop);
    let mut first_replay: Option<PathBuf> = None;
    if !unlisted.is_empty() {
        let _ = std::fs::create_dir_all(&rdir);
        let mut seen_classes: BTreeMap<String, u32> = BTreeMap::new();
        for (i, v) in unlisted.iter().enumerate() {
            let c = seen_classes.entry(v.class.clone()).or_insert(0);
            *c += 1;
            if *c > 5 {
                continue;
            }
            let path = rdir.join(format!("{}-seed{}-{}.json", tier_name(cfg.tier), cfg.seed, i));
            let j = J::obj()
                .set("property", J::s(&cfg.prop))
                .set("class", J::s(&v.class))
                .set("summary", J::s(&v.summary))
                .set("seed", J::Int(cfg.seed as i64))
                .set("tier", J::s(tier_name(cfg.tier)))
                .set(
                    "case",
                    J::obj()
                        .set("stream", J::s(&v.stream))
                        .set("index", J::Int(v.idx as i64))
                        .set("seed", J::Int(cfg.seed as i64))
                        .set("tier", J::s(tier_name(cfg.tier)))
                        .set("scale", J::s(format!("{}", cfg.scale))),
                )
                .set("replay_command", J::s(format!("bin/check {} {} --replay <this file>", cfg.prop, tier_name(cfg.tier))))
                .set("detail", v.detail.clone());
            let _ = std::fs::write(&path, j.pretty());
            if first_replay.is_none() {
                first_replay = Some(path);
            }
        }
    }
    let observed = st.counters.get(&out.floor_counter).cloned().unwrap_or(0);
    let harness_panics = st.counters.get("harness_panics").cloned().unwrap_or(0);
    st.add("violations_matching_known_findings", listed);
    // evidence
    let mut cov = J::obj()
        .set("evaluations", J::Int(st.evaluations as i64))
        .set("distinct_nontrivial", J::Int(st.distinct.len() as i64))
        .set("rule", J::s(&out.rule))
        .set("samples", J::Arr(st.samples.clone()))
        .set("floor_counter", J::s(&out.floor_counter))
        .set("floor", J::Int(out.floor as i64));
    let mut counters = J::obj();
    for (k, v) in &st.counters {
        counters.put(k.clone(), J::Int(*v as i64));
    }
    cov.put("counters", counters);
    cov.put("extra", out.extra.clone());
    cov.put(
        "known_findings_observed",
        J::Arr(
            out.known_replayed
                .iter()
                .map(|(k, s)| J::obj().set("class", J::s(&k.class)).set("still_fails", J::Bool(*s)))
                .collect(),
        ),
    );
    cov.put(
        "violation_classes",
        J::Arr(unlisted.iter().map(|v| v.class.clone()).collect::<BTreeSet<String>>().into_iter().map(J::Str).collect()),
    );
    let ev = J::obj()
        .set("property_id", J::s(&cfg.prop))
        .set("tier", J::s(tier_name(cfg.tier)))
        .set("seed", J::Int(cfg.seed as i64))
        .set("level", J::s(out.level))
        .set("coverage", cov)
        .set("assumptions", J::strs(&out.assumptions))
        .set("wall_s", J::Num(started.elapsed().as_secs_f64()))
        .set("violations", J::Int(unlisted.len() as i64));
    let edir = cfg.verif_dir.join("evidence");
    let _ = std::fs::create_dir_all(&edir);
    if cfg.replay.is_none() {
        if let Err(e) = std::fs::write(edir.join(format!("{}.json", cfg.prop)), ev.pretty()) {
            eprintln!("[avm] cannot write evidence: {e}");
            return 2;
        }
    }
    println!(
        "[avm] {} {} seed={} evaluations={} distinct_nontrivial={} {}={} violations={} (known-matching={}) wall={:.1}s",
        cfg.prop,
        tier_name(cfg.tier),
        cfg.seed,
        st.evaluations,
        st.distinct.len(),
        out.floor_counter,
        observed,
        unlisted.len(),
        listed,
        started.elapsed().as_secs_f64()
    );
    for (k, v) in &st.counters {
        println!("[avm]   {k} = {v}");
    }
    {
        let mut by_class: BTreeMap<String, u64> = BTreeMap::new();
        for (k, n) in &st.counters {
            if let Some(c) = k.strip_prefix("violations_seen[").and_then(|x| x.strip_suffix(']')) {
                by_class.insert(c.to_string(), *n);
            }
        }
        for (c, n) in &by_class {
            println!("[avm]   violations of class [{c}] = {n}{}", if open.iter().any(|k| &k.class == c) { " (known finding)" } else { "" });
        }
    }
    if let Some(p) = first_replay {
        for v in unlisted.iter().take(5) {
            println!("[avm] violation [{}]: {}", v.class, v.summary);
        }
        println!("VIOLATION property={} replay={}", cfg.prop, p.display());
        return 1;
    }
    if harness_panics > 0 {
        eprintln!("[avm] {} harness panics: no verdict", harness_panics);
        return 2;
    }
    let floor = ((out.floor as f64) * cfg.scale.min(1.0)) as u64;
    if observed < floor {
        eprintln!(
            "[avm] observed too little for a verdict: {} = {} < floor {}",
            out.floor_counter, observed, floor
        );
        return 2;
    }
    0
}

pub fn tier_name(t: Tier) -> &'static str {
    match t {
        Tier::Quick => "quick",
        Tier::Thorough => "thorough",
    }
}

/// temp directory under /verif/.build/tmp (removed by the caller)
pub fn scratch_dir(cfg: &Config, tag: &str) -> PathBuf {
    static N: AtomicU64 = AtomicU64::new(0);
    let n = N.fetch_add(1, Ordering::Relaxed);
    let p = cfg.verif_dir.join(".build/tmp").join(format!("{}-{}-{}-{}", cfg.prop, std::process::id(), tag, n));
    let _ = std::fs::remove_dir_all(&p);
    std::fs::create_dir_all(&p).expect("scratch dir");
    p
}
