#!/usr/bin/env python3
"""Regenerates /verif/MANIFEST.json from the table below (single source of truth)."""
import json, subprocess, sys

HOOK_COMMITS = ["283b3a1"]

# id -> (level, technique, text, note, design_ref)
CHECKS = {
 'C01': ('exploration',
   'reference-model runtime monitor: formulas returned by the real Program::tau_star() evaluated by a sound three-valued evaluator vs independent ground mini-gringo semantics on generated programs x HT interpretations; reduct-based stable models vs equilibrium models',
   'Held on every generated (rule, H, T) and (program, facts, candidate T) observed in the run. Reach comes from tens of thousands of generated rules (colliding variable names, all operators, intervals, partial division) and finite/co-finite interpretations; nothing is proved.',
   "Trusted base: the oracle kit in /verif/harness/src/kit (three-valued evaluator over the infinite standard domain, ground mini-gringo reference semantics with reduct-based stable models, strict TFF reader); division follows the repository's documented convention; interpretations have finite or co-finite extents over small value pools.",
   'DESIGN.md 5/C01, appendices A, B'),
 'C02': ('exploration',
   "reference-model runtime monitor: problems returned by the real ExternalEquivalenceTask::decompose evaluated on interpretations built from reference stable models of either side; 'some problem refuted' vs the reference witness condition (produces/determined)",
   'Held on every generated (task, flags, direction, interpretation) observed: an interpretation refutes an emitted problem exactly when the reference semantics says it witnesses a behavioural difference in that direction.',
   "Trusted base: the oracle kit in /verif/harness/src/kit (three-valued evaluator over the infinite standard domain, ground mini-gringo reference semantics with reduct-based stable models, strict TFF reader); division follows the repository's documented convention; interpretations have finite or co-finite extents over small value pools. Stable models are enumerated for tiny programs only; interpretations are restricted to the vocabulary of the task. The names of renamed private predicates and of renamed symbolic constants are read off the emitted problems (a renamed constant is read as the constant it stands for); no naming scheme is prescribed.",
   'DESIGN.md 5/C02'),
 'C03': ('exploration',
   'reference-model runtime monitor: problems of the real StrongEquivalenceTask::decompose evaluated under hp->H(p), tp->T(p) vs ground HT satisfaction of the two programs, incl. H not a subset of T',
   'Held on every generated (pair, representation, flags, direction, H, T) observed.',
   "Trusted base: the oracle kit in /verif/harness/src/kit (three-valued evaluator over the infinite standard domain, ground mini-gringo reference semantics with reduct-based stable models, strict TFF reader); division follows the repository's documented convention; interpretations have finite or co-finite extents over small value pools.",
   'DESIGN.md 5/C03'),
 'C04': ('exploration',
   'reference-model runtime monitor: classical evaluation of the real completion(tau* P, inputs) vs reduct-based stable-model check; structural scan for completed definitions; refusal of mutated non-completable theories',
   'Held on every generated (tight program, input set, interpretation) observed and on every mutated non-completable theory (four classes).',
   "Trusted base: the oracle kit in /verif/harness/src/kit (three-valued evaluator over the infinite standard domain, ground mini-gringo reference semantics with reduct-based stable models, strict TFF reader); division follows the repository's documented convention; interpretations have finite or co-finite extents over small value pools. Tightness is anthem's own verdict (checked by C11).",
   'DESIGN.md 5/C04'),
 'C05': ('exploration',
   'runtime monitor with two evaluator modes: HT (Kripke) evaluation of F vs classical evaluation of the real gamma(F) under hp->H, tp->T; injectivity of the h-/t-copies',
   'Held on every generated (formula, H, T, assignment) observed.',
   'The HT and classical modes of the evaluator share only the term layer; copies are named by prefixing h/t as documented.',
   'DESIGN.md 5/C05'),
 'C06': ('exploration',
   "runtime monitor: formulas rendered by Problem's Display (the --save-problems path), read back by a strict TFF reader/type checker and evaluated under the standard interpretation of the preamble symbols vs the source formula",
   'Held on every generated formula and sampled task formula observed: accepted by the strict reader, same truth value, same binder and constant sorts.',
   "Strict TFF reader and its standard interpretation of the preamble symbols are trusted (cross-checked against the repository's tptp4X in the kit self-test).",
   'DESIGN.md 5/C06, appendix C'),
 'C07': ('exploration',
   'runtime monitor: before/after evaluation (HT or classical per portfolio) of the three portfolios x three strategies driven through the real Apply::apply/apply_fixpoint with an instrumented closure; per-rewrite fire counts; first-bad-step attribution; redex templates and feedback of intermediate nodes',
   'Held on every (portfolio, strategy, formula) observed; every rewrite of every portfolio fired in the run (otherwise the run is inconclusive for it).',
   "Trusted base: the oracle kit in /verif/harness/src/kit (three-valued evaluator over the infinite standard domain, ground mini-gringo reference semantics with reduct-based stable models, strict TFF reader); division follows the repository's documented convention; interpretations have finite or co-finite extents over small value pools. The instrumented closure folds the portfolio exactly like convenience::compose (a CLI sample checks that `anthem simplify` prints the same).",
   'DESIGN.md 5/C07'),
 'C08': ('exploration',
   'reference-model runtime monitor: HT evaluation of the real natural()/mu() formulas vs the tau* formula of the same rule and vs the ground reference semantics',
   'Held on every generated (translation, rule, H, T) observed, incl. interpretations with symbols, #inf, #sup where a wrongly integer-sorted variable would show.',
   "Trusted base: the oracle kit in /verif/harness/src/kit (three-valued evaluator over the infinite standard domain, ground mini-gringo reference semantics with reduct-based stable models, strict TFF reader); division follows the repository's documented convention; interpretations have finite or co-finite extents over small value pools.",
   'DESIGN.md 5/C08'),
 'C09': ('exploration',
   'runtime monitor: every problem text of generated accepted tasks (hostile identifier shapes, all flag combinations) read by a strict TFF lexer/parser/type checker; saved files compared byte-for-byte with the in-process text',
   'Held on every emitted problem observed, except for the open known findings (three identifier-mangling defects recorded in known_findings.json, matched by root-cause class).',
   'Strict TFF reader implements the fragment of DESIGN.md appendix C.',
   'DESIGN.md 5/C09, 7'),
 'C10': ('fault_enumeration',
   'fault injection + offline log checker: the real `anthem verify` binary against a stand-in vampire that answers per plan (17 behaviours) and records every invocation, -n 1..8, random delays; checker over event log, stdin bytes, stdout and saved files; plus Prover::prove_all under Miri with a mock prover over scheduler seeds',
   'Every planned prover behaviour and whole-run fault was observed many times; on each run exactly-once delivery, byte identity with --save-problems, verdict, per-problem status and the instance bound held; Miri reported no data race, deadlock or leak in the fan-in on the seeds explored.',
   "A run delivered Theorem iff its stdout is valid UTF-8 and the first SZS status line says Theorem; three combinations are don't-care for the verdict (see DESIGN). Schedules are sampled, not enumerated.",
   'DESIGN.md 5/C10, 6'),
 'C11': ('exploration',
   "runtime monitor with independent reference implementations: own cycle detection on the positive dependency graph and own implementation of the manual's regularity definition vs is_tight()/is_regular()/CLI; injected precondition violations must be refused in-process and by the CLI with nothing emitted",
   "Held on every generated program (both directions of 'exactly when') and on every task with one injected precondition violation (9 classes).",
   'Unary minus is read as 0 - t in the regularity definition (manual silent).',
   'DESIGN.md 5/C11'),
 'C12': ('exploration',
   'runtime monitor: auto-generated axioms read from the emitted problem text by the strict TFF reader and evaluated under the standard interpretation; structural check of the symbol-order chain',
   'No auto-generated axiom evaluated to False on the sampled standard interpretations; quantified preamble axioms are sampled around every constant (counts of definite-true vs no-counterexample are in the evidence); the order chain covers all symbols and is increasing, except for the open known finding on renamed symbols.',
   'Truth of universally quantified preamble axioms over $int/general is sampled, not certified.',
   'DESIGN.md 5/C12'),
 'C13': ('exploration',
   'runtime monitor: history check over the emitted problem list (every axiom justified at that point), induction soundness sampled on interpretations where the emitted base and step hold, refusal of ill-formed definitions',
   'Held on every generated outline task observed.',
   "Formula identity by syntax tree; anthem's own closure function is used for matching lemma formulas only.",
   'DESIGN.md 5/C13'),
 'C14': ('exploration',
   'round-trip monitor: parse -> print -> parse (equal trees) -> print (equal text) on grammar-directed and generated mini-gringo texts for Program, Rule, Head, Body, Term; CLI sample',
   'Held on every accepted text observed.',
   "Tree equality is anthem's derived PartialEq.",
   'DESIGN.md 5/C14'),
 'C15': ('exploration',
   'round-trip monitor: parse -> print -> parse -> print on target-language formulas, theories, specifications, user guides and on everything translate/simplify print (in-process and real CLI stdout fed back to `anthem parse`)',
   'Held on every accepted text observed.',
   "Tree equality is anthem's derived PartialEq.",
   'DESIGN.md 5/C15'),
 'C16': ('exploration',
   'crash monitor: mutated and generated inputs through a catch_unwind pre-filter (library calls in a child process under a CPU-time limit) and the real release and dev binaries in subprocesses, classified by exit status, signal, stderr and CPU-time limit (a run over 20 s is repeated with 300 s; only a run over that is a hang)',
   'No panic, abort, signal or CPU-limit hit on any (command, input) observed; reported errors and successes are counted separately.',
   'A non-zero exit with a message and no `panicked at` is a reported error; the dev profile adds overflow and debug assertions.',
   'DESIGN.md 5/C16'),
 'C17': ('exploration',
   'reference-model runtime monitor: eval(F[x:=t], s) vs eval(F, s[x := value of t]) in classical and HT mode and the free-variable law on generated (formula, variable, term) triples with hostile binder names',
   'Held on every generated triple observed.',
   "Trusted base: the oracle kit in /verif/harness/src/kit (three-valued evaluator over the infinite standard domain, ground mini-gringo reference semantics with reduct-based stable models, strict TFF reader); division follows the repository's documented convention; interpretations have finite or co-finite extents over small value pools.",
   'DESIGN.md 5/C17'),
 'C18': ('exploration',
   'runtime monitor: node-visit counter inside the real apply_fixpoint (bounded progress, no wall clock), idempotence, and byte comparison of three runs of each command in fresh processes (small generated inputs and large tasks with up to ~80 problem files)',
   'Every fixpoint run terminated within the step bound (max passes observed is reported) and was idempotent; all repeated CLI runs were byte-identical.',
   'Termination is decided as bounded progress.',
   'DESIGN.md 5/C18'),
 'C19': ('exploration',
   'metamorphic runtime monitor: the problem families of the 8 flag combinations of one task evaluated on the same interpretations (random, HT-derived and model-guided); refutation must agree in all families',
   'Held on every (task, direction, interpretation) observed.',
   'Evaluator only; no reference semantics of programs is needed for the verdict.',
   'DESIGN.md 5/C19'),
 'C20': ('exploration',
   'model-based runtime monitor: a role-assignment model written from the statement vs the real CLI on random directory layouts and argument permutations, byte comparison of saved problems; swap symmetry of directions',
   'Held on every generated layout observed.',
   'Directory expansion order is by file-name bytes, depth first.',
   'DESIGN.md 5/C20'),
}

PENDING = {}

def main():
    props = [json.loads(l) for l in open('/verif/properties.jsonl')]
    checks = []
    na = []
    for p in props:
        pid = p['id']
        if pid in CHECKS:
            level, tech, text, note, ref = CHECKS[pid]
            checks.append({
                "property_id": pid,
                "quick_cmd": f"bin/check {pid} quick",
                "thorough_cmd": f"bin/check {pid} thorough",
                "evidence_file": f"/verif/evidence/{pid}.json",
                "replay_cmd_template": f"bin/check {pid} quick --replay {{path}}",
                "engine": "avm",
                "level_claimed": {"category": level, "text": text, "design_ref": ref},
                "level_note": note,
                "technique": tech,
            })
        else:
            na.append({"property_id": pid, "reason": PENDING.get(pid, "monitor under construction in this session; not claimed until its check runs silently on the unchanged tree")})
    m = {
        "version": 1,
        "setup_cmd": "bin/setup",
        "hooks": {
            "guard": "cargo feature `verif` of the anthem crate (off by default)",
            "enable": "the harness crate /verif/harness depends on anthem = { path = \"/repo\", features = [\"verif\"] }; bin/check rebuilds it from /repo's working tree on every invocation; the anthem binaries driven through the CLI are built with the guard off",
            "baseline_off_cmd": "cd /repo && cargo test --workspace --no-fail-fast --offline",
            "source_commits": HOOK_COMMITS,
            "add_only": True,
        },
        "engines": [{
            "name": "avm",
            "path": "/verif/harness",
            "serves_properties": sorted(CHECKS.keys()),
            "kind_free_text": "Rust harness: runtime monitors over the real anthem library (feature verif) and the real anthem binary, with reference oracles (three-valued evaluator, ground ASP semantics, strict TFF reader), seeded workload generators and offline log checkers; Miri for the prover thread-pool",
        }],
        "checks": checks,
        "notes": "Technique family: runtime monitoring and sanitizers. All verdicts are 'held on what was observed'. Exit codes: 0 held, 1 VIOLATION, 2 harness problem / observed too little (no verdict). Known findings: /verif/known_findings.json.",
        "not_applicable": na,
    }
    json.dump(m, open('/verif/MANIFEST.json', 'w'), indent=1)
    print("wrote MANIFEST.json with", len(checks), "checks,", len(na), "not claimed")

main()
