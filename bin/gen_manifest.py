#!/usr/bin/env python3
"""Regenerates /verif/MANIFEST.json from the table below (single source of truth)."""
import json, subprocess, sys

HOOK_COMMITS = ["283b3a1"]

# id -> (level, technique, text, note, design_ref)
CHECKS = {
 "C01": ("exploration",
         "reference-model runtime monitor: real Program::tau_star() output evaluated by a sound three-valued evaluator vs independent ground mini-gringo semantics, on generated programs x HT interpretations; reduct-based stable models vs equilibrium models",
         "Held on every generated (rule, H, T) and (program, facts, T) observed in this run: the formulas produced by the real tau* code have the truth value the ground semantics prescribes. Reach comes from tens of thousands of generated rules with colliding variable names, all operators, finite and co-finite extents; nothing is proved.",
         "Trusted base: the oracle kit (three-valued evaluator over the infinite standard domain, ground reference semantics, reduct-based stable-model checker); division follows the repository's documented convention; interpretations with finite or co-finite extents only.",
         "DESIGN.md section 5 C01, appendices A and B"),
}

PENDING = {}

def main():
    props = [json.loads(l) for l in open('/verif/properties.jsonl')]
    checks = []
    na = []
    for p in props:
        pid = p['id']
        if pid in CHECKS:
            level, tech, text, note, ref = CHECKS[pid]
            checks.append({
                "property_id": pid,
                "quick_cmd": f"bin/check {pid} quick",
                "thorough_cmd": f"bin/check {pid} thorough",
                "evidence_file": f"/verif/evidence/{pid}.json",
                "replay_cmd_template": f"bin/check {pid} quick --replay {{path}}",
                "engine": "avm",
                "level_claimed": {"category": level, "text": text, "design_ref": ref},
                "level_note": note,
                "technique": tech,
            })
        else:
            na.append({"property_id": pid, "reason": PENDING.get(pid, "monitor under construction in this session; not claimed until its check runs silently on the unchanged tree")})
    m = {
        "version": 1,
        "setup_cmd": "bin/setup",
        "hooks": {
            "guard": "cargo feature `verif` of the anthem crate (off by default)",
            "enable": "the harness crate /verif/harness depends on anthem = { path = \"/repo\", features = [\"verif\"] }; bin/check rebuilds it from /repo's working tree on every invocation; the anthem binaries driven through the CLI are built with the guard off",
            "baseline_off_cmd": "cd /repo && cargo test --workspace --no-fail-fast --offline",
            "source_commits": HOOK_COMMITS,
            "add_only": True,
        },
        "engines": [{
            "name": "avm",
            "path": "/verif/harness",
            "serves_properties": sorted(CHECKS.keys()),
            "kind_free_text": "Rust harness: runtime monitors over the real anthem library (feature verif) and the real anthem binary, with reference oracles (three-valued evaluator, ground ASP semantics, strict TFF reader), seeded workload generators and offline log checkers; Miri for the prover thread-pool",
        }],
        "checks": checks,
        "notes": "Technique family: runtime monitoring and sanitizers. All verdicts are 'held on what was observed'. Exit codes: 0 held, 1 VIOLATION, 2 harness problem / observed too little (no verdict). Known findings: /verif/known_findings.json.",
        "not_applicable": na,
    }
    json.dump(m, open('/verif/MANIFEST.json', 'w'), indent=1)
    print("wrote MANIFEST.json with", len(checks), "checks,", len(na), "not claimed")

main()
