#!/usr/bin/env python3
"""Rewrites section 8b of DESIGN.md (between the markers) from seeded/*/meta.json and seeded/MATRIX.json."""
import json, glob, os, re
rows=[]
matrix={}
if os.path.exists('/verif/seeded/MATRIX.json'):
    matrix=json.load(open('/verif/seeded/MATRIX.json'))
for f in sorted(glob.glob('/verif/seeded/*/meta.json')):
    m=json.load(open(f))
    entry=matrix.get(m['id'],{})
    fired=entry.get('fired',[]) if isinstance(entry,dict) else entry
    others=[c for c in fired if c!=m['property']]
    ran=entry.get('checks_run','').split() if isinstance(entry,dict) else []
    rows.append(f"| {m['id']}{' (not valid: breaks the pinned ui test)' if m.get('valid') is False else ''} | {m['property']} | {m['needs_to_manifest']} | {('yes' + (' ('+m['first_attempt'].split(';')[0]+')' if 'missed' in m.get('first_attempt','') else '')) if m['detected_by_quick_check'] else (('no, and rightly so: ' if m.get('outside_property') else '**no**: ') + m.get('first_attempt','') + ' [caught by ' + ', '.join(m.get('detected_by_other_checks',[])) + ']')} | {(', '.join(others) if others else '-') + (' (of ' + ' '.join(c for c in ran if c!=m['property']) + ')' if ran else '') if m['id'] in matrix else 'n/a'} |")
table="| seeded change | property | what it needs in order to manifest | caught by the property's quick check | other checks that also fire, of those run (quarter scale, checks of properties whose code the change touches) |\n|---|---|---|---|---|\n"+"\n".join(rows)
p='/verif/DESIGN.md'
s=open(p).read()
a='<!-- SEEDED-TABLE-BEGIN -->'; b='<!-- SEEDED-TABLE-END -->'
if a in s:
    s=s[:s.index(a)+len(a)]+"\n"+table+"\n"+s[s.index(b):]
    open(p,'w').write(s)
    print("table updated:",len(rows),"rows")
else:
    print(table)
